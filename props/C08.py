"""C08 - attribute values survive print/parse losslessly; parsing never fails."""
import urllib.parse
import z3

import gffutils
import gffutils.parser as P
import gffutils.feature as F
from gffutils import constants
from gffutils.attributes import Attributes

from pyvc.core import SInt, SStr, Val, Lit, IntLit, Pct, Undecided, mkstr
from pyvc.interp import Interp
from pyvc.models import _struct_eq, _allowed_fn, _WS
from contracts import attrspec as A
from contracts.common import blank_feature
from props.C07 import col_holes, assume_cols, join, _native_enc, COLX

LEVEL = "other"
EXPLANATION = ("PROVED: (1) the per-character escape lemma, exhaustively over all 1 114 112 code points on the REAL parser.quoter: reserved "
               "characters map to upper-case %XX, every other character to itself, and urllib.parse.unquote inverts it (finite domain, "
               "complete); (2) for every supplied dialect of the 48 and every mapping shape of <= 3 keys x <= 3 values with ARBITRARY "
               "non-empty contents (gff3-style with '=' : no restriction at all; space-separated styles: no blank; gtf style: free of ; \" , "
               "and control characters, no leading/trailing white space): the real _reconstruct output re-parsed by the real _split_keyvals "
               "with that dialect gives back exactly the mapping (keys and values in order) and the very dialect object; (3) the printed "
               "attribute column of a gff3-style dialect contains no tab / CR / LF and the printed Feature is nine tab-separated columns "
               "plus the extra columns (strings with holes).  BOUNDED (not counted as proved): 'parsing never raises for every string "
               "whatsoever' - exhaustive over all strings up to length 5 (thorough 7) over the structural alphabet plus random strings, "
               "inferred and supplied dialects - and larger shapes / adversarial Unicode for the inverse.  Known findings (gtf-style "
               "corners, raw-string constructor) are listed.")
TRUSTED = ["T1 strings with holes", "contracts/attrspec.py"]
ASSUMPTIONS = ["A-U unquote decodes a concatenation of single-byte %XX pieces piecewise and leaves other text unchanged", "A-P str.split/join/strip on literal parts"]
PRECONDITIONS = ["keys are the fixed representatives ID/Name/Note", "values as stated per dialect family (see explanation)"]
FUNCTIONS = ["gffutils.parser:Quoter.__missing__", "gffutils.parser:_reconstruct", "gffutils.parser:_split_keyvals", "gffutils.feature:Feature.__unicode__"]


def unit_quoter(U):
    """exhaustive char lemma on the real quoter (the switch history runs FIRST, on a table that has not met the reserved
    characters yet; the exhaustive pass then sees whatever that history left in the table)"""
    quoter_after_switch(U, "C08")
    res = set(P._to_quote)
    want_res = set("\n\t\r%;=&,") | {chr(i) for i in range(32)} | {chr(127)}
    bad = []
    n = 0
    for cp in range(0x110000):
        c = chr(cp)
        q = P.quoter[c]
        n += 1
        exp = "%%%02X" % cp if c in want_res else c
        if q != exp:
            bad.append((cp, q, exp))
        elif c in want_res or cp < 0xD800 or cp > 0xDFFF:
            if urllib.parse.unquote(q) != c:
                bad.append((cp, "unquote(%r) != chr" % q, ""))
        if len(bad) > 5:
            break
    U.prove("C08.quoter.char", "for every code point c: quoter[c] == '%%%02X' % ord(c) if c is reserved (tab LF CR % ; = & , C0 controls DEL) else c, and unquote(quoter[c]) == c   [exhaustive, 1 114 112 code points]",
            [], z3.BoolVal(not bad and res == want_res), {}, replay=lambda m: {"observed": bad[:3], "violates": bool(bad) or res != want_res})
    U.notes.append("quoter lemma: %d code points checked natively on the real parser.quoter" % n)


def quoter_after_switch(U, prefix):
    """the escape table is a function of the character under the DEFAULT setting whatever was printed before under
    constants.ignore_url_escape_characters = True (the switch is read when a line is printed, it is not baked into the table)"""
    want_res = set("\n\t\r%;=&,") | {chr(i) for i in range(32)} | {chr(127)}
    probe = "".join(sorted(want_res)) + "x\u00e9"
    old = constants.ignore_url_escape_characters

    def history():
        constants.ignore_url_escape_characters = True
        try:
            line_on = str(F.Feature(seqid="c", start=1, end=2, attributes={"Note": ["50% a=b&c;d,e"]}))
            str(F.Feature(seqid="c", start=1, end=2, attributes={"Note": [probe]}))
        finally:
            constants.ignore_url_escape_characters = old
        f = F.feature_from_line("c\t.\tgene\t1\t2\t.\t+\t.\tNote=100%25;Alias=a%3Db%26c%2Cd")
        return line_on, str(f).split("\t")[8], [c for c in sorted(want_res) if P.quoter[c] != "%%%02X" % ord(c)]
    line_on, attr_off, bad = history()
    ok = not bad and attr_off == "Note=100%25;Alias=a%3Db%26c%2Cd"
    U.prove("%s.quoter.after_switch" % prefix, "after Features were printed with constants.ignore_url_escape_characters = True and the switch was set back, every reserved character is escaped again (a parsed line with %25 %3D %26 %2C prints as it was)",
            [], z3.BoolVal(bool(ok)), {}, replay=lambda m: {"inputs": "print under ignore_url_escape_characters=True; restore; parse and print 'Note=100%25;Alias=a%3Db%26c%2Cd'",
                                                       "expected": "Note=100%25;Alias=a%3Db%26c%2Cd", "observed": history()[1], "violates": history()[1] != "Note=100%25;Alias=a%3Db%26c%2Cd" or bool(history()[2])})


def supplied_value(name, D):
    ws = frozenset(_WS)
    if D["fmt"] == "gff3" and D["keyval separator"] == "=":
        return Val(z3.String(name), nonempty=True, tag="value")                      # arbitrary non-empty Unicode
    if D["fmt"] == "gff3":
        return Val(z3.String(name), nonempty=True, excl=frozenset(" "), excl_first=ws, excl_last=ws, tag="value")
    excl = set(';",') | {chr(c) for c in range(32)} | {chr(127)} | {" "}
    return Val(z3.String(name), nonempty=True, excl=frozenset(excl), excl_first=ws, excl_last=ws, tag="value")


def native_supplied(dname, D, shape):
    samples = ["x", "a;b=c,d&e%f\tg\nh" if D["fmt"] == "gff3" else "ab", " lead" if (D["fmt"] == "gff3" and D["keyval separator"] == "=") else "ld", "\"q\"" if D["fmt"] == "gff3" else "q",
               "é中\x01\x7f" if D["fmt"] == "gff3" else "é中", "%41%", "50%25" if D["fmt"] == "gff3" else "5025"]
    bad = []
    for rot in range(3):
        k = rot
        m = {}
        for ai, n in enumerate(shape):
            m[A.KEYS[ai]] = []
            for j in range(n):
                m[A.KEYS[ai]].append(samples[k % len(samples)] + str(k))
                k += 1
        m = {kk: vv for kk, vv in m.items() if vv}
        f = F.Feature(seqid="c", source="s", featuretype="t", start=1, end=2, attributes={kk: list(vv) for kk, vv in m.items()}, dialect=dict(D), extra=["e1"])
        line = str(f)
        cols = line.split("\t")
        g = F.feature_from_line(line, dialect=dict(D))
        got = {kk: list(vv) for kk, vv in g.attributes.items()}
        if len(cols) != 10 or "\n" in line or "\r" in line or got != m:
            bad.append({"mapping": m, "line": line, "parsed": got})
    return {"inputs": {"dialect": dname, "shape": shape}, "observed": bad[:2], "violates": bool(bad)}


def native_frame(D):
    d = dict(D)
    d["order"] = list(D["order"])
    f1 = F.Feature(attributes={"ID": ["a"], "Note": ["n"]}, dialect=d, keep_order=True)
    f2 = F.Feature(attributes={"ID": ["b"], "Zeta": ["z"], "Note": ["n"]}, dialect=d, keep_order=True)
    s2_first = str(f2)
    str(f1)
    s2_again = str(F.Feature(attributes={"ID": ["b"], "Zeta": ["z"], "Note": ["n"]}, dialect=d, keep_order=True))
    return {"inputs": "two features sharing one dialect dict, keys outside dialect['order']", "observed": [s2_first, s2_again, d["order"]], "violates": d != dict(D, order=list(D["order"])) or s2_first != s2_again}


def _unit_supplied(styles):
    def unit(U):
        for dname, D in A.dialects():
            if dname.split("|")[0] not in styles:
                continue
            for shape in A.shapes(U.thorough):
                if 0 in shape:
                    continue                  # the statement speaks of non-empty value lists
                it = Interp()
                A.install(it)

                def run(ctx, D=D, shape=shape):
                    items = []
                    for ai, n in enumerate(shape):
                        vals = [supplied_value("v%d_%d" % (ai, j), D) for j in range(n)]
                        for v in vals:
                            for c in v.light_constraints():
                                ctx.assume(c)
                        items.append((A.KEYS[ai], vals))
                    m = A.attrs_of(items)
                    d = dict(D)
                    d["order"] = list(D["order"])
                    snap = {k: list(v) for k, v in m._d.items()}
                    s = it.call(P._reconstruct, [m, d], {"keep_order": True})
                    q, d2 = it.call(P._split_keyvals, [s, d], {})
                    ctx.stash.update(items=items, d=d, s=s, m=m, snap=snap)
                    return q, d2
                base = "C08.supplied[%s,%s]" % (dname, "x".join(map(str, shape)))
                replay = lambda mm, dname=dname, D=D, shape=shape: native_supplied(dname, D, shape)
                for p in U.explore(run, it):
                    if p.kind != "return":
                        U.prove(base + ".noraise#p%d" % p.index, "print and re-parse raise nothing (got %r)" % (p.value,), p.pc, z3.BoolVal(False), {}, replay=replay)
                        continue
                    st = p.ctx.stash
                    q, d2 = p.value
                    U.prove(base + ".inverse#p%d" % p.index, "_split_keyvals(_reconstruct(m, D), D) == (m, D): same keys and values in order, the supplied dialect object returned", [],
                            z3.BoolVal(bool(A.same_items(q, st["items"]) and d2 is st["d"])), {}, replay=replay)
                    unchanged = st["d"] == D and list(st["m"]._d.keys()) == list(st["snap"].keys()) and all(len(st["m"]._d[k]) == len(st["snap"][k]) and all(a is b for a, b in zip(st["m"]._d[k], st["snap"][k])) for k in st["snap"])
                    U.prove(base + ".frame#p%d" % p.index, "printing (keep_order=True, keys missing from dialect['order'] included) and parsing modify neither the dialect nor the mapping", [],
                            z3.BoolVal(bool(unchanged)), {}, replay=lambda mm, D=D: native_frame(D))
                    if D["fmt"] == "gff3":
                        s = SStr.of(st["s"])
                        clean = all((isinstance(a, Lit) and not any(c in a.s for c in "\t\n\r")) or (not isinstance(a, Lit) and _allowed_fn(a) is not None and not any(_allowed_fn(a)(c, w) for c in "\t\n\r" for w in ("first", "last", "any")))
                                    for a in s.atoms)
                        U.prove(base + ".oneline#p%d" % p.index, "the printed attribute column of a gff3-style dialect contains no tab, CR or LF (reserved characters are escaped)", [], z3.BoolVal(bool(clean)), {}, replay=replay)
    return unit


def native_inferred(dname, D, shape):
    """print with D, parse WITHOUT a dialect (inference), compare the mapping; values include percent-escapes"""
    samples = ["x", "ab", "g%41", "100%25", "a%3Bb", "é中", "%", "5%2", "q r" if D["keyval separator"] != " " else "qr"]
    bad = []
    for rot in range(len(samples)):
        k = rot
        m = {}
        for ai, n in enumerate(shape):
            m[A.KEYS[ai]] = [samples[(k + j) % len(samples)] + str(k + j) for j in range(n)]
            k += n
        f = F.Feature(seqid="c", source="s", featuretype="t", start=1, end=2, attributes={kk: list(vv) for kk, vv in m.items()}, dialect=dict(D))
        line = str(f)
        try:
            g = F.feature_from_line(line)
            got = {kk: list(vv) for kk, vv in g.attributes.items()}
            h = F.Feature(attributes=line.split("\t")[8])
            got2 = {kk: list(vv) for kk, vv in h.attributes.items()}
        except Exception as ex:
            bad.append({"line": line, "raised": repr(ex)})
            continue
        if got != m or got2 != m:
            bad.append({"mapping": m, "line": line, "feature_from_line": got, "Feature(attributes=str)": got2})
    return {"inputs": {"dialect": dname, "shape": shape}, "observed": bad[:2], "violates": bool(bad)}


def unit_inferred_gtf(U):
    """GTF-style dialects have no escaping: a value (free of ';', '"', ',' and control characters, but possibly holding
    '%XX') printed with the dialect and parsed with NO dialect supplied (inference) comes back unchanged"""
    for dname, D in A.dialects():
        if dname.split("|")[0] != 'k "v"' or "notrail" in dname and not U.thorough and "rep" not in dname.split("|")[-1]:
            continue
        for shape in ((1,), (1, 1), (2, 1)):
            if D["repeated keys"] and max(shape) < 2 and not U.thorough:
                continue
            it = Interp()
            A.install(it)

            def run(ctx, D=D, shape=shape):
                items = []
                for ai, n in enumerate(shape):
                    vals = [supplied_value("v%d_%d" % (ai, j), D) for j in range(n)]
                    for v in vals:
                        for c in v.light_constraints():
                            ctx.assume(c)
                    items.append((A.KEYS[ai], vals))
                s = A.enc(items, D)
                ctx.stash.update(items=items)
                return it.call(P._split_keyvals, [s], {})
            base = "C08.inferred[%s,%s]" % (dname, "x".join(map(str, shape)))
            replay = lambda mm, dname=dname, D=D, shape=shape: native_inferred(dname, D, shape)
            for p in U.explore(run, it):
                if p.kind != "return":
                    U.prove(base + ".noraise#p%d" % p.index, "parsing raises nothing (got %r)" % (p.value,), p.pc, z3.BoolVal(False), {}, replay=replay)
                    continue
                q, d2 = p.value
                ok = A.same_items(q, p.ctx.stash["items"]) and isinstance(d2, dict) and d2.get("fmt") == "gtf"
                U.prove(base + ".inverse#p%d" % p.index, "_split_keyvals(enc(m, D)) with the dialect inferred == m (values verbatim: no percent-decoding in a GTF-style column) and the inferred format is gtf", [],
                        z3.BoolVal(bool(ok)), {}, replay=replay)


def unit_fresh_parse(U):
    """re-parsing: every feature_from_line / Feature(attributes=<str>) call builds its own containers - the mapping, each
    value list, the dialect and its key order are not shared with the result of an earlier parse of the same text (or an
    in-place edit of one Feature would change what the next parse of the printed line returns)"""
    picks = [(n, D) for n, D in A.dialects() if n in ("k=v|';'|notrail|norep", 'k "v"|\'; \'|trail|norep')]
    for dname, D in picks:
        it = Interp()
        A.install(it)

        def run(ctx, D=D):
            items = []
            for ai, n in enumerate((1, 2)):
                vals = [A.value_hole("v%d_%d" % (ai, j), D) for j in range(n)]
                for v in vals:
                    for c in v.light_constraints():
                        ctx.assume(c)
                items.append((A.KEYS[ai], vals))
            attr = A.enc(items, D)
            line = SStr([Lit("c\ts\tt\t1\t2\t.\t+\t.\t")] + list(SStr.of(attr).atoms))
            f1 = it.call(F.feature_from_line, [line], {})
            f2 = it.call(F.feature_from_line, [line], {})
            return f1, f2

        def replay(m, D=D, dname=dname):
            f = F.Feature(seqid="c", source="s", featuretype="t", start=1, end=2, attributes={"ID": ["a"], "Name": ["x", "y"]}, dialect=dict(D))
            line = str(f)
            g1 = F.feature_from_line(line)
            g1.attributes["Name"].append("added_later")
            g1.dialect["order"].append("Zzz")
            g2 = F.feature_from_line(line)
            obs = {"Name": list(g2.attributes["Name"]), "order": list(g2.dialect["order"])}
            return {"inputs": {"dialect": dname, "line": line, "steps": "parse, edit the first result in place, parse the same line again"},
                    "expected": {"Name": ["x", "y"], "order": ["ID", "Name"]}, "observed": obs, "violates": obs != {"Name": ["x", "y"], "order": ["ID", "Name"]}}
        for p in U.explore(run, it):
            ok = p.kind == "return"
            if ok:
                f1, f2 = p.value
                d1, d2 = f1.attributes._d, f2.attributes._d
                ok = (f1 is not f2 and f1.attributes is not f2.attributes and d1 is not d2 and all(d1[k] is not d2[k] for k in d1 if k in d2)
                      and f1.dialect is not f2.dialect and f1.dialect["order"] is not f2.dialect["order"])
            U.prove("C08.fresh_parse[%s]#p%d" % (dname, p.index), "two parses of the same line share no mutable container (mapping, value lists, dialect, key order)", [], z3.BoolVal(bool(ok)), {}, replay=replay)


def unit_nine_columns(U):
    """str(Feature(attributes=dict, dialect=D)) is nine tab-separated columns plus the extra columns"""
    it = Interp()
    A.install(it)
    for dname, D in A.dialects():
        if D["fmt"] != "gff3" or "norep" not in dname or "notrail" not in dname:
            continue
        for nextra in (0, 2):
            def run(ctx, D=D, nextra=nextra):
                items = [(A.KEYS[0], [supplied_value("v0", D)]), (A.KEYS[1], [supplied_value("v1", D), supplied_value("v2", D)])]
                cols = col_holes("c")
                extra = [SStr([Val(z3.String("x%d" % i), excl=COLX)]) for i in range(nextra)]
                assume_cols(ctx, cols + extra)
                f = blank_feature(seqid=cols[0], source=cols[1], featuretype=cols[2], start=SInt(cols[3].atoms[0].e), end=SInt(cols[4].atoms[0].e), score=cols[5], strand=cols[6], frame=cols[7],
                                  attributes=A.attrs_of(items), extra=extra, dialect=dict(D), keep_order=True)
                return it.call(F.Feature.__str__, [f], {})
            for p in U.explore(run, it):
                ok = p.kind == "return"
                if ok:
                    s = SStr.of(p.value)
                    tabs = sum(a.s.count("\t") for a in s.atoms if isinstance(a, Lit))
                    noeol = all(not isinstance(a, Lit) or ("\n" not in a.s and "\r" not in a.s) for a in s.atoms)
                    holes_ok = all(isinstance(a, Lit) or (_allowed_fn(a) is not None and not any(_allowed_fn(a)(c, w) for c in "\t\n\r" for w in ("first", "last", "any"))) for a in s.atoms)
                    ok = tabs == 8 + nextra and noeol and holes_ok
                U.prove("C08.print.nine_cols[%s,extra=%d]#p%d" % (dname, nextra, p.index), "the printed Feature is a single line of exactly nine tab-separated columns plus the extra columns, whatever the attribute contents", [],
                        z3.BoolVal(bool(ok)), {}, replay=lambda mm, dname=dname, D=D: native_supplied(dname, D, (1, 2)))


def unit_bounded_print_after_edit(U):
    """Bounded: what is printed is the CURRENT mapping: a Feature that was printed / compared / hashed once and whose attribute
    mapping (or dialect, or extra columns) is then edited IN PLACE prints the edited state, and that line re-parses to it"""
    fails, cases = [], 0
    for dname, D in A.dialects():
        if not (dname.endswith("|norep") and dname.startswith(("k=v|", 'k "v"|'))):
            continue
        for first in ("str", "eq", "hash", "set"):
            cases += 1
            f = F.Feature(seqid="c", source="s", featuretype="t", start=1, end=2, attributes={"ID": ["a"], "Note": ["n1"]}, dialect=dict(D, order=["ID", "Note"]), extra=["x1"])
            {"str": lambda: str(f), "eq": lambda: f == f, "hash": lambda: hash(f), "set": lambda: {f}}[first]()
            f.attributes["Note"].append("n2")
            f.attributes["Alias"] = ["al"]
            del f.attributes["ID"]
            f.extra.append("x2")
            want = {"Note": ["n1", "n2"], "Alias": ["al"]}
            g = F.feature_from_line(str(f), dialect=dict(D, order=["ID", "Note"]))
            got = {k: list(v) for k, v in g.attributes.items()}
            if got != want or list(g.extra) != ["x1", "x2"]:
                fails.append({"case": {"dialect": dname, "first": first, "then": "append to Note, add Alias, delete ID, append an extra column - all in place"}, "expected": [want, ["x1", "x2"]], "observed": [got, list(g.extra)], "printed": str(f)})
    U.bounded_result("C08.bounded.print_after_edit", "print -> edit the mapping in place -> print: the second line is that of the edited Feature and re-parses to it", "12 dialects x 4 first uses (str, ==, hash, set membership)", cases, fails)

UNITS = [("bounded.print_after_edit", unit_bounded_print_after_edit), ("quoter", unit_quoter), ("supplied.kv", _unit_supplied(("k=v", 'k="v"'))), ("supplied.sp", _unit_supplied(('k "v"', "k v"))), ("nine_columns", unit_nine_columns), ("inferred.gtf", unit_inferred_gtf), ("fresh_parse", unit_fresh_parse)]
try:
    from standins import C08 as _S
    UNITS = UNITS + list(_S.UNITS)
except ImportError:
    pass


def replay_known(entry):
    w = entry.get("replay")
    try:
        if w == "gtf-unquoted-trailing-blank":
            D = dict(constants.dialect, fmt="gtf")
            D.update({"keyval separator": " ", "quoted GFF2 values": False})
            f = F.Feature(attributes={"gene_id": ["a "]}, dialect=D)
            g = F.feature_from_line(str(f), dialect=D)
            return g.attributes.get("gene_id") != ["a "]
        if w == "gtf-equals-separator":
            D = dict(constants.dialect, fmt="gtf")
            D.update({"keyval separator": "=", "quoted GFF2 values": True})
            f = F.Feature(attributes={"gene_id": ["a=b"]}, dialect=D)
            g = F.feature_from_line(str(f), dialect=D)
            return g.attributes.get("gene_id") != ["a=b"]
        if w == "gtf-leading-semicolon":
            D = dict(constants.dialect, fmt="gtf")
            D.update({"keyval separator": " ", "quoted GFF2 values": True, "leading semicolon": True, "field separator": "; ", "trailing semicolon": True})
            f = F.Feature(attributes={"gene_id": ["g1"]}, dialect=D)
            g = F.feature_from_line(str(f), dialect=D)
            return list(g.attributes.keys()) != ["gene_id"]
        if w == "ctor-raw-json-scalar":
            try:
                F.Feature(attributes="2")
                return False
            except (TypeError, ValueError):
                return True
    except Exception:
        return True
    return None


def replay_file(doc):
    return {"error": "re-run ./check C08 to regenerate and replay this obligation", "violates": None, "stored": doc.get("inputs")}
