"""C14 - directives are all kept in order; comments, blanks and FASTA are not features."""
import z3

import gffutils
import gffutils.iterators as IT
import gffutils.create as C
import gffutils.interface as I
import gffutils.feature as F

from pyvc.core import SInt, SStr, Val, Lit, Undecided, Ctx, mkstr
from pyvc.interp import Interp, LoopExit
from pyvc.harness import install_loop_body_hook
from contracts import pipeline as PL
from props.C04 import _streq

LEVEL = "proof"
EXPLANATION = ("Line classification: the loop body of _FileIterator._custom_iter is executed once (fold rule) for an arbitrary line "
               "(unconstrained string, with '', '\\n' or '\\r\\n' line ending) from an arbitrary state and proved against the statement with z3 "
               "strings: '##FASTA' or a '>' prefix stops the pass, '##' prefix appends line[2:] to the directives and yields nothing, a "
               "single '#' or an empty line produces nothing, anything else yields exactly one feature_from_line(line).  Ownership / "
               "plumbing: the real create_db is executed symbolically end to end on a ghost file of lines with symbolic content "
               "(every classification of 1-4 lines, checklines 0/1) over the ghost database and file system; the rows written to the "
               "directives table by _finalize are proved to be exactly the '##' lines before the terminator, in order, wherever they sit "
               "relative to the dialect-inspection window; FeatureDB.__init__ reads them back in order; update() passes no directives.")
TRUSTED = ["T1 incl. fold rule", "contracts/pipeline.py (ghost file, sqlite3.connect / os.path contracts)"]
ASSUMPTIONS = ["A-P text-mode open yields the file's lines", "A-S3 SELECT directive FROM directives returns rows in insertion (rowid) order",
               "feature_from_line / _choose_dialect by contract (C07/C09)"]
PRECONDITIONS = []
FUNCTIONS = ["gffutils.iterators:_FileIterator._custom_iter", "gffutils.iterators:_BaseIterator._directive_handler", "gffutils.iterators:_FileIterator.peek",
             "gffutils.iterators:_BaseIterator.__init__", "gffutils.iterators:_BaseIterator.__iter__", "gffutils.iterators:DataIterator",
             "gffutils.create:create_db", "gffutils.create:_DBCreator.__init__", "gffutils.create:_DBCreator._finalize", "gffutils.create:_DBCreator.create",
             "gffutils.interface:FeatureDB.__init__"]


def unit_classify(U):
    for ending in ("", "\n", "\r\n"):
        it = Interp()
        b = z3.String("line")
        fl_calls = []
        it.contracts[IT.feature_from_line] = lambda interp, a, k: ("feature", a[0], k)

        def run(ctx, ending=ending):
            body = Val(b, excl_last=frozenset("\n\r"))
            for c in body.constraints():
                ctx.assume(c)
            line = SStr([body, Lit(ending)])
            self_ = object.__new__(IT._FileIterator)
            old = ["<earlier>"]
            self_.directives = old
            self_.dialect = None
            self_.data = "/ghost/file.gff"
            self_.current_item = None
            self_.current_item_number = None
            it.contracts[IT._FileIterator.open_function] = lambda interp, a, k: PL.GhostLines([line])

            def setup(env, c, iterable):
                if type(iterable).__name__ == "IGen" or hasattr(iterable, "gi_frame"):
                    # the loop walks a helper generator (which may already have stripped / numbered / filtered the lines):
                    # what it receives is not a raw line of the file, the unit cannot bind to it
                    raise Undecided("the line loop iterates a helper generator, not the file handle (loop structure not recognised)")
                old[:] = ["<earlier>"]
                env.vars["self"].directives = old          # arbitrary earlier state of this pass
                env.store("valid_lines", SInt(z3.Int("valid0")))
                return (SInt(z3.Int("lineno")), line)
            install_loop_body_hook(it, "_custom_iter", 0, setup)
            ctx.stash.update(old=list(old), self_=self_)
            try:
                list(it.call(IT._FileIterator._custom_iter, [self_], {}))
            except LoopExit as e:
                return {"kind": e.payload, "yields": list(e.env.vars.get("$yield", [])), "directives": list(self_.directives)}
            raise Undecided("loop hook not reached")

        def replay(m, ending=ending):
            import tempfile, os
            text = m.get("line", "")
            if "\n" in text or "\r" in text:
                return {"inputs": repr(text), "violates": None, "error": "model line contains a line break"}
            fd, fn = tempfile.mkstemp(suffix=".gff")
            try:
                with os.fdopen(fd, "w", newline="") as fh:
                    fh.write("##first\n" + text + (ending or "\n") + "chr1\t.\tgene\t1\t5\t.\t+\t.\tID=after\n")
                d = gffutils.DataIterator(fn, dialect=gffutils.constants.dialect)
                feats = list(d)
                dirs = list(d.directives)
            except Exception as e:
                return {"inputs": repr(text), "observed": "raised %r" % (e,), "violates": True}
            finally:
                os.unlink(fn)
            stop = text == "##FASTA" or text.startswith(">")
            if stop:
                exp = ([], ["first"])
            elif text.startswith("##"):
                exp = (["after"], ["first", text[2:]])
            elif text.startswith("#") or text == "":
                exp = (["after"], ["first"])
            else:
                exp = (None, ["first"])
            obs_ids = [f.attributes.get("ID", ["?"])[0] for f in feats]
            bad = dirs != exp[1] or (exp[0] is not None and obs_ids != exp[0]) or (exp[0] is None and (len(feats) != 2 or obs_ids[-1] != "after"))
            return {"inputs": repr(text), "expected": exp, "observed": (obs_ids, dirs), "violates": bad}
        base = "C14.classify[eol=%r]" % ending
        for p in U.explore(run, it):
            if p.kind != "return":
                U.prove(base + ".noraise#p%d" % p.index, "classifying a line raises nothing (got %r)" % (p.value,), p.pc, z3.BoolVal(False), {"line": b}, replay=replay)
                continue
            r = p.value
            old = p.ctx.stash["old"]
            stop = z3.Or(b == z3.StringVal("##FASTA"), z3.PrefixOf(z3.StringVal(">"), b))
            direc = z3.And(z3.Not(stop), z3.PrefixOf(z3.StringVal("##"), b))
            skip = z3.And(z3.Not(stop), z3.Not(direc), z3.Or(z3.PrefixOf(z3.StringVal("#"), b), z3.Length(b) == 0))
            feat = z3.And(z3.Not(stop), z3.Not(direc), z3.Not(skip))
            kind, ys, ds = r["kind"], r["yields"], r["directives"]
            same_dirs = ds == old
            # how the body ended is abstracted to: the pass stops / the loop goes on to the next line
            # ('continue' and falling off the end of the body are the same thing)
            goes_on = kind in ("continue", "next")
            is_stop = kind in ("return", "break") and not ys and same_dirs
            appended = len(ds) == len(old) + 1 and ds[:len(old)] == old
            is_dir = goes_on and not ys and appended
            is_skip = goes_on and not ys and same_dirs
            is_feat = goes_on and len(ys) == 1 and same_dirs and isinstance(ys[0], tuple) and ys[0][0] == "feature"
            dir_text = _streq(ds[-1], SStr([Val(z3.SubString(b, 2, z3.Length(b) - 2))])) if appended else z3.BoolVal(False)
            feat_arg = _streq(ys[0][1], SStr([Val(b)])) if is_feat else z3.BoolVal(False)
            goal = z3.And(z3.Implies(stop, z3.BoolVal(is_stop)), z3.Implies(direc, z3.And(z3.BoolVal(is_dir), dir_text)),
                          z3.Implies(skip, z3.BoolVal(is_skip)), z3.Implies(feat, z3.And(z3.BoolVal(is_feat), feat_arg)))
            U.prove(base + "#p%d" % p.index,
                    "'##FASTA' or '>' prefix ==> stop, nothing produced; '##' prefix ==> directives += [line[2:]], no feature; '#' prefix or empty ==> nothing; otherwise exactly one feature_from_line(line)",
                    p.pc, goal, {"line": b}, replay=replay)


def unit_own_directives(U):
    """each iterator collects directives in a list of its own (not a class attribute, not a shared default): reading a
    second file must not change what the first iterator reports; shared with C13"""
    from props import C13
    C13.unit_init_state(U, prefix="C14.iterator")


def unit_schema(U):
    """what is written is what is read back: the tables are plain text / integer stores (checked on the real SCHEMA)"""
    from contracts import importer as IM_
    IM_.prove_plain_schema(U, "C14", ['directives', 'meta'])


def unit_bounded_line_endings(U):
    """Bounded: directives, comments and features are told apart line by line whatever ends the lines: LF, CRLF, a lone CR
    (old Mac), mixed, no terminator on the last line - file and from_string input"""
    import tempfile, os, shutil
    import gffutils
    fails, cases = [], 0
    lines = ["##gff-version 3", "# a comment", "##species demo", "c\ts\tgene\t1\t9\t.\t+\t.\tID=g1", "#! not a directive", "##late 1", "c\ts\texon\t1\t5\t.\t+\t.\tID=e1;Parent=g1"]
    want_dir, want_ids = ["gff-version 3", "species demo", "late 1"], ["e1", "g1"]
    d = tempfile.mkdtemp()
    try:
        for name, eols in (("LF", ["\n"] * 7), ("CRLF", ["\r\n"] * 7), ("CR", ["\r"] * 7), ("mixed", ["\n", "\r", "\r\n", "\n", "\r", "\n", ""]), ("CR after comment", ["\n", "\r", "\n", "\n", "\r", "\n", "\n"])):
            text = "".join(l + e for l, e in zip(lines, eols))
            path = os.path.join(d, "in_%s.gff" % name.replace(" ", "_"))
            with open(path, "w", newline="") as fh:
                fh.write(text)
            for form, kw in (("path", dict(data=path)), ("from_string", dict(data=text, from_string=True))):
                cases += 1
                try:
                    db = gffutils.create_db(kw["data"], ":memory:", from_string=kw.get("from_string", False))
                    got = [list(db.directives), sorted(f.id for f in db.all_features())]
                except Exception as e:
                    got = "raised %r" % (e,)
                if got != [want_dir, want_ids]:
                    fails.append({"case": {"line endings": name, "input": form}, "expected": [want_dir, want_ids], "observed": got})
    finally:
        shutil.rmtree(d, ignore_errors=True)
    U.bounded_result("C14.bounded.line_endings", "directives and features of a file are the same whatever line terminators it uses", "5 terminator patterns x path / from_string", cases, fails)

def unit_bounded_two_strings(U):
    """Bounded: the directives (and features) of a text input are those of THAT text also when other from_string inputs are
    created before it is read: iterator A built, then iterator / database B from another text, then A consumed or imported"""
    fails, cases = [], 0
    text = lambda tag, n: "##gff-version 3\n##source %s\n" % tag + "".join("c\t%s\tgene\t%d\t%d\t.\t+\t.\tID=%s%d\n##note %s%d\n" % (tag, 10 * i + 1, 10 * i + 5, tag, i, tag, i) for i in range(n))
    expd = lambda tag, n: ["gff-version 3", "source %s" % tag] + ["note %s%d" % (tag, i) for i in range(n)]
    for second in ("DataIterator", "create_db", "DataIterator, consumed"):
        for use in ("iterate", "create_db", "create_db + reopen"):
            cases += 1
            case = {"first": "A = DataIterator(text A, from_string=True)", "then": "%s(text B, from_string=True)" % second, "then A is": use}
            import tempfile, os, shutil
            d = tempfile.mkdtemp()
            old_tmp = tempfile.tempdir
            tempfile.tempdir = d                 # the text copies DataIterator leaves behind (known finding of C20) go with the directory
            try:
                A = gffutils.DataIterator(text("A", 14), from_string=True)
                if second == "create_db":
                    gffutils.create_db(text("B", 3), ":memory:", from_string=True)
                else:
                    B = gffutils.DataIterator(text("B", 3), from_string=True)
                    if second.endswith("consumed"):
                        list(B)
                if use == "iterate":
                    ids = [f.attributes["ID"][0] for f in A]
                    dirs = list(A.directives)
                else:
                    dbfn = ":memory:" if use == "create_db" else os.path.join(d, "a.db")
                    db = gffutils.create_db(A, dbfn)
                    if use != "create_db":
                        db = gffutils.FeatureDB(dbfn)
                    ids = [f.id for f in db.all_features(order_by="start")]
                    dirs = list(db.directives)
                if ids != ["A%d" % i for i in range(14)] or dirs != expd("A", 14):
                    fails.append(dict(case, expected={"ids": ["A%d" % i for i in range(14)], "directives": expd("A", 14)}, observed={"ids": ids, "directives": dirs}))
            except Exception as e:
                fails.append(dict(case, expected="no exception", observed=repr(e)))
            finally:
                tempfile.tempdir = old_tmp
                shutil.rmtree(d, ignore_errors=True)
    U.bounded_result("C14.bounded.two_text_inputs", "a from_string input keeps its own lines whatever other from_string inputs the process creates before it is read", "3 ways of creating a second text input x 3 uses of the first", cases, fails)

UNITS = [("bounded.two_strings", unit_bounded_two_strings), ("bounded.line_endings", unit_bounded_line_endings), ("schema", unit_schema), ("classify", unit_classify), ("own_directives", unit_own_directives)] + PL.c14_units()
try:
    from standins import C14 as _S
    UNITS = UNITS + list(_S.UNITS)
except ImportError:
    pass


def replay_file(doc):
    return {"error": "re-run ./check C14 to regenerate and replay this obligation", "violates": None, "stored": doc.get("inputs")}
