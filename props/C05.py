"""C05 - duplicate keys are resolved exactly as the chosen merge_strategy says."""
import itertools
import os
import shutil
import tempfile
import sqlite3
import z3

import gffutils
import gffutils.create as C
import gffutils.feature as F
import gffutils.helpers as H
import gffutils.bins as B
from gffutils import constants

from pyvc.core import SInt, SStr, SSeq, Val, Lit, IntLit, Undecided, Ctx, mkstr
from pyvc.interp import Interp
from pyvc import ghostdb, sqlmodel as Q
from contracts.common import bins_contract, blank_feature
from gffutils.attributes import Attributes
from contracts import importer as IM
from contracts.spec_import import RefDB, real_snapshot
from props.C04 import _streq, _auto

LEVEL = "other"
EXPLANATION = ("PROVED (unbounded, z3): the non-merge branches of _DBCreator._do_merge ('error' raises, 'warning' returns (None, ..) and "
               "changes nothing, 'replace' returns the newcomer, 'create_unique' renames it to '<key>_<counters[key]+1>' bumping only that "
               "counter, unknown strategy raises); the collision block of both importers (_GFFDBCreator / _GTFDBCreator "
               "._populate_from_lines) executed symbolically for an arbitrary colliding feature on an arbitrary database: 'error' aborts with "
               "no further statement, 'warning' issues no statement at all (no row, no relation), 'replace' overwrites exactly the row "
               "under the key with the newcomer's 12 columns, 'create_unique' inserts the newcomer under the fresh key and files its "
               "relations under that key; force_merge_fields with start/end is rejected.  BOUNDED (run time, real create_db and update, "
               "not counted as proved): the 'merge' strategy (candidate search, column comparison, attribute union, forced columns, "
               "duplicates bookkeeping) against the reference step model for all collision sequences of length <= 3 (thorough: 4) over "
               "column/attribute/source variants, GFF3 and GTF.")
TRUSTED = ["contracts/spec_import.py (reference step model from the statement)", "contracts/importer.py", "T3 SQL model"]
ASSUMPTIONS = ["A-S1 sqlite3: INSERT of an existing id raises IntegrityError without effect", "A-G always_return_list True during import"]
PRECONDITIONS = ["the colliding feature's key is obtained by id_spec (C04)"]
FUNCTIONS = ["gffutils.interface:FeatureDB.delete", "gffutils.create:_DBCreator._do_merge", "gffutils.create:_GFFDBCreator._populate_from_lines", "gffutils.create:_GTFDBCreator._populate_from_lines",
             "gffutils.create:_DBCreator._insert", "gffutils.create:_DBCreator._replace", "gffutils.create:_DBCreator.__init__",
             "gffutils.create:_DBCreator._add_duplicate", "gffutils.create:_DBCreator._candidate_merges"]


def _interp():
    it = Interp()
    it.contracts[B.bins] = bins_contract
    it.contracts[H._jsonify] = lambda interp, a, k: IM.OpaqueJSON(a[0])
    IM.GhostFS().install(it)
    return it


def mkfeat(fid, ft="gene", start=1, end=9, source="s", strand="+", **attrs):
    a = {"ID": [fid]} if fid is not None else {}
    for k, v in attrs.items():
        a[k] = v if isinstance(v, list) else [v]
    return F.Feature(seqid="c", source=source, featuretype=ft, start=start, end=end, strand=strand, attributes=a)


def unit_do_merge(U):
    it = _interp()
    for strat in ("error", "warning", "replace", "create_unique", "bogus"):
        def run(ctx, strat=strat):
            fid, _ = IM.sval("f.ID")
            f, fv = IM.sym_feature("f", {"ID": [fid]})
            f.id = fid
            cnt = IM.SymMap("cnt")
            cr = IM.blank_creator(C._GFFDBCreator, ghostdb.GhostConn(), counters=cnt, merge_strategy=strat)
            before = dict(vars(f))
            r = it.call(C._DBCreator._do_merge, [cr, f, strat], {})
            return r, f, cnt, before, fid

        def replay(m, strat=strat):
            cr = IM.blank_creator(C._GFFDBCreator, None, counters=__import__("collections").defaultdict(int), merge_strategy=strat)
            f = mkfeat("k")
            f.id = "k"
            try:
                r = cr._do_merge(f, strat)
                obs = (r[0].id if r[0] is not None else None, r[1], dict(cr._autoincrements))
            except ValueError as e:
                obs = "ValueError"
            exp = {"error": "ValueError", "bogus": "ValueError", "warning": (None, "warning", {}), "replace": ("k", "replace", {}),
                   "create_unique": ("k_1", "create_unique", {"k": 1})}[strat]
            return {"inputs": {"strategy": strat}, "expected": exp, "observed": obs, "violates": obs != exp}
        for p in U.explore(run, it):
            base = "C05.do_merge.%s#p%d" % (strat, p.index)
            nostmt = not ghostdb.executes(p.ctx)
            if strat in ("error", "bogus"):
                U.prove(base, "%r ==> raises ValueError, no statement executed" % strat, p.pc, z3.BoolVal(p.kind == "raise" and isinstance(p.value, ValueError) and nostmt), {}, replay=replay)
                continue
            if p.kind != "return":
                U.prove(base, "returns (got %r)" % (p.value,), p.pc, z3.BoolVal(False), {}, replay=replay)
                continue
            r, f, cnt, before, fid = p.value
            if strat == "warning":
                goal = z3.And(z3.BoolVal(isinstance(r, tuple) and r[0] is None and r[1] == "warning" and nostmt and vars(f) == before), cnt.arr == cnt.arr0)
                text = "'warning' ==> returns (None, 'warning'); feature, counters and database untouched"
            elif strat == "replace":
                goal = z3.And(z3.BoolVal(isinstance(r, tuple) and r[0] is f and r[1] == "replace" and nostmt and vars(f) == before), cnt.arr == cnt.arr0)
                text = "'replace' ==> returns (f, 'replace'); nothing else changes"
            else:
                k, a = _auto(fid, cnt.arr0)
                rest = {x: v for x, v in vars(f).items() if x != "id"} == {x: v for x, v in before.items() if x != "id"}
                goal = z3.And(z3.BoolVal(isinstance(r, tuple) and r[0] is f and r[1] == "create_unique" and nostmt and rest), _streq(f.id, k), cnt.arr == a)
                text = "'create_unique' ==> f.id becomes '<key>_<counters[key]+1>', only counters[key] bumped, returns (f, 'create_unique')"
            U.prove(base, text, p.pc, goal, {}, replay=replay)


def _collision_run(it, cls, strat, holder):
    """populate loop body for one feature whose INSERT collides"""
    def run(ctx):
        fid, fidv = IM.sval("f.ID")
        parents, plen, pat = IM.sym_seq_of_strings("f.Parent")
        ctx.assume(plen >= 0)
        tid, _ = IM.sval("f.transcript_id")
        gid, _ = IM.sval("f.gene_id")
        if cls is C._GFFDBCreator:
            attrs = {"ID": [fid], "Parent": parents}
            spec = "ID"
        else:
            attrs = {"gene_id": [gid], "transcript_id": [tid], "ID": [fid]}
            spec = "ID"
        f, fv = IM.sym_feature("f", attrs)
        state = {"n": 0}

        def on_execute(cur, q, a):
            st = Q.parse(q)
            if st.kind == "insert" and IM.insert_info(st.node)[0] == "features":
                state["n"] += 1
                if state["n"] == 1:
                    raise sqlite3.IntegrityError("UNIQUE constraint failed: features.id")
        conn = ghostdb.GhostConn(on_execute=on_execute)
        cnt = IM.SymMap("cnt")
        cr = IM.blank_creator(cls, conn, id_spec=spec, merge_strategy=strat, counters=cnt)
        ctx.stash.update(f=f, fid=fid, parents=parents, cnt=cnt, tid=tid, gid=gid)
        it.call(cls._populate_from_lines, [cr, [f]], {})
        return f
    return run


def _native_collision(fmt, strat):
    """replay: two colliding lines through the real create_db; compare with the reference model"""
    if fmt == "gff":
        feats = [mkfeat("p1"), mkfeat("p2"), mkfeat("k", ft="mRNA", Parent=["p1"], Name="first"), mkfeat("k", ft="mRNA", start=2, Parent=["p2"], Name="second")]
        kw = dict(id_spec="ID")
        ref = RefDB("gff3", "ID")
    else:
        feats = [F.Feature(seqid="c", source="s", featuretype="exon", start=1, end=5, strand="+", attributes={"gene_id": ["g1"], "transcript_id": ["t1"], "exon_id": ["k"]}),
                 F.Feature(seqid="c", source="s", featuretype="exon", start=7, end=9, strand="+", attributes={"gene_id": ["g2"], "transcript_id": ["t2"], "exon_id": ["k"]})]
        kw = dict(id_spec={"exon": "exon_id", "gene": "gene_id", "transcript": "transcript_id"}, disable_infer_genes=True, disable_infer_transcripts=True)
        ref = RefDB("gtf", kw["id_spec"])
    exp_exc = False
    try:
        for f in feats:
            ref.step(f, strat)
        if fmt == "gff":
            ref.finish_gff()
    except ValueError:
        exp_exc = True
    try:
        dial = None
        if fmt == "gtf":
            dial = dict(constants.dialect, fmt="gtf")
        db = gffutils.create_db([copy_feature(f, dial) for f in feats], ":memory:", merge_strategy=strat, dialect=dial, **kw)
        got = real_snapshot(db)
        obs_exc = False
    except ValueError:
        got, obs_exc = None, True
    except Exception as e:
        return {"inputs": [str(f) for f in feats], "observed": "raised %r" % (e,), "violates": True}
    if exp_exc or obs_exc:
        return {"inputs": [str(f) for f in feats], "expected": "ValueError" if exp_exc else "no error", "observed": "ValueError" if obs_exc else "no error", "violates": exp_exc != obs_exc}
    exp = ref.snapshot()
    bad = dict(got[0]) != dict(exp[0]) or got[1] != exp[1]
    return {"inputs": {"strategy": strat, "lines": [str(f) for f in feats]}, "expected": {"features": list(exp[0].items()), "relations": sorted(exp[1])},
            "observed": {"features": list(got[0].items()), "relations": sorted(got[1])}, "violates": bad}


def copy_feature(f, dialect=None):
    g = F.Feature(seqid=f.seqid, source=f.source, featuretype=f.featuretype, start=f.start, end=f.end, score=f.score, strand=f.strand,
                  frame=f.frame, attributes={k: list(v) for k, v in f.attributes.items()}, dialect=dialect)
    return g


def _rel_present(ins, fmt, key_for_rel, h):
    """completeness of the links filed for the kept newcomer: GFF3 - a non-empty Parent list is written by one INSERT
    per element; GTF - the rows (t, key, 1) [t != key] and (g, t, 1) [t != g] of the NEWCOMER's own transcript_id / gene_id
    are among the rows written (whatever else the merged record carries)"""
    rows = []
    for e in ins:
        try:
            if e.how == "executemany":
                for r in e.args:
                    t, conflict, cols, vals = IM.insert_values(e, list(r))
                    rows.append(dict(zip(cols or Q.TABLE_COLS["relations"], vals)))
            else:
                t, conflict, cols, vals = IM.insert_values(e)
                rows.append((dict(zip(cols or Q.TABLE_COLS["relations"], vals)), e.forall))
        except (Q.SQLArgs, Q.SQLSyntax, Undecided, KeyError):
            return z3.BoolVal(False)
    if fmt == "gff":
        plen = h["parents"].length
        has_forall = any(isinstance(r, tuple) and r[1] is not None and r[1][0] is h["parents"] for r in rows)
        return z3.Implies(plen > 0, z3.BoolVal(has_forall))
    plain = [r for r in rows if isinstance(r, dict)]
    tk = z3.Or(*[z3.And(IM.veq(r["parent"], h["tid"]), IM.veq(r["child"], key_for_rel), IM.veq(r["level"], 1)) for r in plain]) if plain else z3.BoolVal(False)
    gt = z3.Or(*[z3.And(IM.veq(r["parent"], h["gid"]), IM.veq(r["child"], h["tid"]), IM.veq(r["level"], 1)) for r in plain]) if plain else z3.BoolVal(False)
    t_is_key = SStr.of(h["tid"]).z3() == SStr.of(key_for_rel).z3()
    t_is_g = SStr.of(h["tid"]).z3() == SStr.of(h["gid"]).z3()
    return z3.And(z3.Or(t_is_key, tk), z3.Or(t_is_g, gt))


def _rel_goals(ins, fmt, key_for_rel, h):
    goals = []
    for e in ins:
        try:
            if e.how == "executemany":
                rows = [IM.insert_values(e, list(r))[3] for r in e.args]
                t, conflict, cols, _ = IM.insert_values(e, list(e.args[0])) if e.args else (None, None, None, None)
            else:
                t, conflict, cols, vals = IM.insert_values(e)
                rows = [vals]
            order = cols or Q.TABLE_COLS["relations"]
            for vals in rows:
                row = dict(zip(order, vals))
                if fmt == "gff":
                    goals.append(z3.And(IM.veq(row["child"], key_for_rel), IM.veq(row["level"], 1),
                                        IM.veq(row["parent"], h["parents"].elem(e.forall[1])) if e.forall else z3.BoolVal(False)))
                else:
                    goals.append(z3.Or(z3.And(IM.veq(row["child"], key_for_rel), IM.veq(row["parent"], h["tid"]), IM.veq(row["level"], 1)),
                                       z3.And(IM.veq(row["child"], key_for_rel), IM.veq(row["parent"], h["gid"]), IM.veq(row["level"], 2)),
                                       z3.And(IM.veq(row["child"], h["tid"]), IM.veq(row["parent"], h["gid"]), IM.veq(row["level"], 1))))
        except (Q.SQLArgs, Q.SQLSyntax, Undecided, KeyError):
            goals.append(z3.BoolVal(False))
    return goals


def unit_collision(U):
    for cls, fmt in ((C._GFFDBCreator, "gff"), (C._GTFDBCreator, "gtf")):
        for strat in ("error", "warning", "replace", "create_unique"):
            it = _interp()
            h = {}
            run = _collision_run(it, cls, strat, h)
            base = "C05.%s.collision[%s]" % (fmt, strat)
            replay = lambda m, fmt=fmt, strat=strat: _native_collision(fmt, strat)
            for p in U.explore(run, it):
                effs = IM.classify(p.ctx.effects)
                stm = [e for e in effs if e.kind in ("insert", "update", "delete")]
                first_failed = stm[:1]
                rest = stm[1:]
                feat_dml = [e for e in rest if e.table == "features"]
                rel_dml = [e for e in rest if e.table == "relations"]
                ok_first = bool(first_failed) and first_failed[0].kind == "insert" and first_failed[0].table == "features"
                U.prove(base + ".attempt#p%d" % p.index, "the step first attempts a plain INSERT of the feature (which collides)", [], z3.BoolVal(ok_first), {}, replay=replay)
                h = p.ctx.stash
                f, fid, cnt = h["f"], h["fid"], h["cnt"]
                if strat == "error":
                    U.prove(base + ".abort#p%d" % p.index, "'error' ==> aborts with an exception; no statement after the failed INSERT", p.pc,
                            z3.BoolVal(p.kind == "raise" and isinstance(p.value, ValueError) and not rest), {}, replay=replay)
                    continue
                if p.kind != "return":
                    U.prove(base + ".noraise#p%d" % p.index, "raises nothing (got %r)" % (p.value,), p.pc, z3.BoolVal(False), {}, replay=replay)
                    continue
                if strat == "warning":
                    U.prove(base + ".ignored#p%d" % p.index, "'warning' ==> the later feature is ignored: no row, no attribute and no relation is written", p.pc,
                            z3.BoolVal(not rest), {}, replay=replay)
                    continue
                if strat == "replace":
                    ok = len(feat_dml) == 1 and feat_dml[0].kind == "update"
                    goal = z3.BoolVal(False)
                    if ok:
                        e = feat_dml[0]
                        try:
                            goal = _update_is_row(e, f)
                        except (Q.SQLArgs, Q.SQLSyntax, Undecided) as ex:
                            goal = z3.BoolVal(False)
                    U.prove(base + ".row#p%d" % p.index, "'replace' ==> exactly the row under the key is overwritten with the newcomer's 12 columns (one UPDATE ... WHERE id = key)", p.pc, goal, {}, replay=replay)
                    key_for_rel = fid
                    dels = [e for e in rel_dml if e.kind == "delete"]
                    U.prove(base + ".retract#p%d" % p.index, "'replace' keeps the last: Parent links of the replaced line are retracted (a DELETE on relations for child = key)", p.pc,
                            z3.BoolVal(len(dels) >= 1), {"always": z3.BoolVal(True)}, replay=replay)
                else:
                    k, a = _auto(fid, cnt.arr0)
                    ok = len(feat_dml) == 1 and feat_dml[0].kind == "insert"
                    goal = z3.BoolVal(False)
                    if ok:
                        args = feat_dml[0].args
                        goal = z3.And(z3.BoolVal(isinstance(args, (list, tuple)) and len(args) == 12), _streq(args[0], k) if len(args) == 12 else z3.BoolVal(False),
                                      _streq(f.id, k), cnt.arr == a)
                    U.prove(base + ".row#p%d" % p.index, "'create_unique' ==> the newcomer is inserted under '<key>_<counters[key]+1>' (one INSERT), only that counter bumped", p.pc, goal, {}, replay=replay)
                    key_for_rel = k
                # relations of the kept newcomer are filed under its final key
                ins = [e for e in rel_dml if e.kind == "insert"]
                goals = _rel_goals(ins, fmt, key_for_rel, h) + [_rel_present(ins, fmt, key_for_rel, h)]
                U.prove(base + ".relations#p%d" % p.index, "the kept newcomer's links are filed under its final key (GFF3: (Parent[i], key', 1); GTF: (t, key', 1), (g, key', 2), (g, t, 1)); nothing else is inserted into relations",
                        p.pc, z3.And(*goals) if goals else z3.BoolVal(True), {}, replay=replay)


def unit_collision_each(U):
    """every collision of one import is resolved with the CONFIGURED strategy: two colliding lines in one call, the first of
    which falls back to another final strategy (merge -> create_unique): _do_merge is asked with self.merge_strategy both times"""
    for cls, fmt in ((C._GFFDBCreator, "gff"), (C._GTFDBCreator, "gtf")):
        it = _interp()

        def run(ctx, cls=cls):
            feats = []
            for nm in ("f1", "f2"):
                fid, _ = IM.sval(nm + ".ID")
                attrs = {"ID": [fid]} if cls is C._GFFDBCreator else {"gene_id": [IM.sval(nm + ".g")[0]], "transcript_id": [IM.sval(nm + ".t")[0]], "ID": [fid]}
                feats.append(IM.sym_feature(nm, attrs)[0])

            def on_execute(cur, q, a):
                st = Q.parse(q)
                if st.kind == "insert" and IM.insert_info(st.node)[0] == "features":
                    # attempts: f1 (collides), f1 under its fresh key (goes in), f2 (collides)
                    state["n"] = state.get("n", 0) + 1
                    if state["n"] in (1, 3):
                        raise sqlite3.IntegrityError("UNIQUE constraint failed: features.id")
            state = {}
            asked = []

            def do_merge(interp, a, k):
                strategy = a[2] if len(a) > 2 else k.get("merge_strategy")
                asked.append(strategy)
                f = a[1]
                if len(asked) == 1:
                    f.id = SStr(list(SStr.of(f.id).atoms) + [Lit("_1")])       # filed under a fresh key
                    return f, "create_unique"
                return f, "merge"
            it.contracts[C._DBCreator._do_merge] = do_merge
            cr = IM.blank_creator(cls, ghostdb.GhostConn(on_execute=on_execute), id_spec="ID", merge_strategy="merge", counters=IM.SymMap("cnt"))
            it.call(cls._populate_from_lines, [cr, feats], {})
            return asked

        def replay(m, fmt=fmt):
            # (a) same key, other coordinates -> filed as k_1; then (b) same key and columns as the stored one, new attribute -> merged
            if fmt == "gff":
                mk = lambda i, s, **a: mkfeat(i, ft="exon", start=s, **a)
                first = [mkfeat("e1", ft="exon", start=1, Name="n0"), mkfeat("e2", ft="exon", start=1, Name="n0")]
                later = [mkfeat("e1", ft="exon", start=3, Name="other"), mkfeat("e2", ft="exon", start=1, Note="merged_in")]
                db = gffutils.create_db([copy_feature(f) for f in first], ":memory:", id_spec="ID")
                db.update([copy_feature(f) for f in later], merge_strategy="merge", make_backup=False)
                ids = sorted(f.id for f in db.all_features())
                note = list(db["e2"].attributes.get("Note", []))
                exp = [["e1", "e1_1", "e2"], ["merged_in"]]
                return {"inputs": {"create_db": [str(f) for f in first], "then update(merge_strategy='merge')": [str(f) for f in later]}, "expected": exp, "observed": [ids, note], "violates": [ids, note] != exp}
            return {"violates": False, "note": "no native replay for the GTF importer"}
        for p in U.explore(run, it):
            ok = p.kind == "return" and list(p.value) == ["merge", "merge"]
            U.prove("C05.%s.collision.strategy_each#p%d" % (fmt, p.index), "each of two collisions in one import is resolved with the configured merge_strategy (whatever the final strategy of the earlier one was)",
                    [], z3.BoolVal(bool(ok)), {}, replay=replay)


def _update_is_row(e, f):
    """UPDATE features SET <12 cols = ?> WHERE id = ?  with args == astuple(f) + [f.id]"""
    node = e.stmt.node
    assigns = [c for c in node.children if isinstance(c, __import__("lark").Tree) and c.data == "assign"]
    cols = [str(a.children[0]) for a in assigns]
    args = list(e.args)
    where = [c for c in node.children if isinstance(c, __import__("lark").Tree) and c.data == "where"]
    ok = cols == Q.FEATURE_COLS and len(args) == 13 and len(where) == 1
    if not ok:
        return z3.BoolVal(False)
    wtxt = Q.expr_text(where[0].children[-1])
    conds = [z3.BoolVal(wtxt.replace(" ", "") in ("cmp[id,=,?]", "cmp[features.id,=,?]"))]
    conds.append(_streq(args[0], f.id))
    conds.append(_streq(args[12], f.id))
    for i, c in enumerate(Q.FEATURE_COLS[1:9], start=1):
        v = getattr(f, c)
        if isinstance(v, SInt):
            conds.append(z3.BoolVal(isinstance(args[i], SInt)) if not isinstance(args[i], SInt) else args[i].e == v.e)
        else:
            conds.append(_streq(args[i], v))
    conds.append(z3.BoolVal(isinstance(args[9], IM.OpaqueJSON) and args[9].of is f.attributes))
    return z3.And(*conds)


def unit_candidates(U):
    """_candidate_merges (a stub in the other units): candidates for a newcomer with key k == the feature stored under k
    plus every feature filed as a duplicate of k (duplicates.idspecid == k, joined on newid == features.id) - looked up in the
    TABLE on every call (nothing remembered between calls or between creators)"""
    it = _interp()
    kid = z3.String("k")

    def run(ctx):
        k = SStr([Val(kid, nonempty=True)])
        f, _ = IM.sym_feature("f", {"ID": [k]})
        f.id = k
        primary = blank_feature(id=k)
        calls = []
        it.contracts[C._DBCreator._get_feature] = lambda interp, a, kw: (calls.append(a[1]), primary)[1]
        # list(set(candidates)): the candidates are distinct objects; duplicates by Feature equality (equal printed lines,
        # C17) would collapse - the set is modelled as the list of distinct objects
        import builtins
        it.models.table[builtins.set] = lambda x=(): [y for i_, y in enumerate(list(x)) if all(y is not z for z in list(x)[:i_])]
        ctx.assumed_models.add("set(<Feature objects>) == the distinct objects (Feature equality by printed line: C17)")
        row, rv = ghostdb.feature_row(ctx, "dup")
        IM.install_json(it)
        a_ = object.__new__(Attributes)
        a_._d = {"ID": [k]}
        row.values[row.cols.index("attributes")] = IM.json_hole(a_)
        row.values[row.cols.index("extra")] = IM.json_hole([])
        ctx.assume(rv["dup.start"] <= rv["dup.end"])
        conn = ghostdb.GhostConn(result_for=lambda cur, kind, q, a: [row])
        cr = IM.blank_creator(C._GFFDBCreator, conn)
        ctx.stash.update(primary=primary, calls=calls, k=k, row=row)
        return it.call(C._DBCreator._candidate_merges, [cr, f], {})

    def replay(m):
        # k, then a differing k (filed as k_1) in one call; a later update() delivering a third k that agrees with k_1 must merge into it
        mk = lambda s, **a: F.Feature(seqid="c", source="s", featuretype="exon", start=s, end=s + 4, strand="+", attributes=dict({"ID": ["k"]}, **{x: [y] for x, y in a.items()}))
        out = {}
        for mode in ("create_db", "create_db+update", "reopen+update"):
            d = tempfile.mkdtemp()
            try:
                fn = os.path.join(d, "x.db")
                if mode == "create_db":
                    db = gffutils.create_db([mk(1, Name="a"), mk(9, Name="b"), mk(9, Note="c")], fn, merge_strategy="merge")
                else:
                    db = gffutils.create_db([mk(1, Name="a"), mk(9, Name="b")], fn, merge_strategy="merge")
                    if mode == "reopen+update":
                        db = gffutils.FeatureDB(fn)
                    db.update([mk(9, Note="c")], merge_strategy="merge", make_backup=False)
                out[mode] = sorted((x.id, sorted(x.attributes.keys())) for x in db.all_features())
            except Exception as ex:
                out[mode] = "raised %r" % (ex,)
            finally:
                shutil.rmtree(d, ignore_errors=True)
        exp = [("k", ["ID", "Name"]), ("k_1", ["ID", "Name", "Note"])]
        return {"inputs": "lines k(start 1), k(start 9, Name=b), k(start 9, Note=c) with merge_strategy='merge', in one call / split over create_db and update", "expected": exp, "observed": out,
                "violates": any(v != exp for v in out.values())}
    for p in U.explore(run, it):
        ok = p.kind == "return"
        goal = z3.BoolVal(False)
        if ok:
            st = p.ctx.stash
            res = list(p.value) if isinstance(p.value, (list, tuple, set)) else []
            ex = ghostdb.executes(p.ctx)
            sel = [e for e in ex]
            okshape = len(sel) == 1 and len(st["calls"]) == 1 and st["calls"][0] is st["k"] and len(res) == 2 and any(x is st["primary"] for x in res)
            if okshape:
                try:
                    stn = Q.parse(sel[0][1])
                    si = Q.select_info(stn.node)
                    frow, fvars = Q.sym_row("features", "f")
                    drow, dvars = Q.sym_row("duplicates", "d", nullable=())
                    on = si.joins[0][1] if len(si.joins) == 1 and si.joins[0][0] == "duplicates" else None
                    if on is not None and si.source[1] == "features" and si.where is not None:
                        c_on, e1 = Q.where_predicate(on, {"features": frow, "duplicates": drow}, [], stn.holes)
                        c_wh, e2 = Q.where_predicate(si.where, {"features": frow, "duplicates": drow}, list(sel[0][2]), stn.holes)
                        spec = z3.And(drow["newid"].term == frow["id"].term, drow["idspecid"].term == kid)
                        other = [x for x in res if x is not st["primary"]][0]
                        goal = z3.And(z3.And(Q._zb(c_on), Q._zb(c_wh)) == spec, z3.BoolVal(e2.pos == len(e2.args) == 1 and sel[0][2][0] is st["k"]),
                                      _streq(other.id, st["row"]["id"]))
                except (Q.SQLArgs, Q.SQLSyntax, Undecided, IndexError, KeyError):
                    goal = z3.BoolVal(False)
        U.prove("C05.candidates#p%d" % p.index,
                "_candidate_merges(f) == [feature stored under f.id] + every feature whose row in `duplicates` names f.id as its requested key (one query on the tables per call, argument f.id)",
                p.pc, goal, {"k": kid}, replay=replay)


def unit_get_feature(U):
    """_get_feature(ID) (a stub in C05.candidates): the one row of features whose id == ID, as a Feature"""
    it = _interp()
    kid = z3.String("k")

    def run(ctx):
        k = SStr([Val(kid, nonempty=True)])
        row, rv = ghostdb.feature_row(ctx, "row")
        IM.install_json(it)
        a_ = object.__new__(Attributes)
        a_._d = {"ID": [k]}
        row.values[row.cols.index("attributes")] = IM.json_hole(a_)
        row.values[row.cols.index("extra")] = IM.json_hole([])
        ctx.assume(rv["row.start"] <= rv["row.end"])
        conn = ghostdb.GhostConn(result_for=lambda cur, kind, q, a: [row])
        cr = IM.blank_creator(C._GFFDBCreator, conn)
        ctx.stash.update(k=k, row=row)
        return it.call(C._DBCreator._get_feature, [cr, k], {})
    for p in U.explore(run, it):
        goal = z3.BoolVal(False)
        if p.kind == "return" and isinstance(p.value, F.Feature):
            st = p.ctx.stash
            ex = ghostdb.executes(p.ctx)
            try:
                if len(ex) == 1:
                    stn = Q.parse(ex[0][1])
                    si = Q.select_info(stn.node)
                    frow, _ = Q.sym_row("features", "f")
                    c_wh, e2 = Q.where_predicate(si.where, {"features": frow}, list(ex[0][2]), stn.holes)
                    goal = z3.And(Q._zb(c_wh) == (frow["id"].term == kid), z3.BoolVal(not si.joins and si.source[1] == "features" and e2.pos == len(e2.args) == 1),
                                  _streq(p.value.id, st["row"]["id"]), _streq(p.value.seqid, st["row"]["seqid"]))
            except (Q.SQLArgs, Q.SQLSyntax, Undecided, IndexError, KeyError, TypeError):
                goal = z3.BoolVal(False)
        U.prove("C05.get_feature#p%d" % p.index, "_get_feature(ID) selects exactly the features row with id == ID (no join, one argument) and returns it as a Feature", p.pc, goal, {"k": kid})


def native_delete_then_merge(m=None):
    # a stored feature whose relation row is gone (parent deleted) is merged with a newcomer that names no parent:
    # the newcomer must not inherit the stored Parent value (and with it a link nobody asked for)
    mk = lambda i, t, par=None, **a: F.Feature(seqid="c", source="s", featuretype=t, start=1, end=9, strand="+", attributes=dict({"ID": [i]}, **dict({"Parent": par} if par else {}, **{k: [v] for k, v in a.items()})))
    d = tempfile.mkdtemp()
    try:
        fn = os.path.join(d, "x.db")
        db = gffutils.create_db([mk("g1", "gene"), mk("m1", "mRNA", ["g1"]), mk("e1", "exon", ["m1"])], fn, merge_strategy="merge")
        db.delete("g1", make_backup=False)
        newcomer = mk("m1", "mRNA", None, Note="n")
        before = {k: list(v) for k, v in newcomer.attributes.items()}
        db.update([newcomer], merge_strategy="merge", make_backup=False)
        rel = sorted(tuple(r) for r in db.conn.execute("SELECT parent, child, level FROM relations"))
        obs = {"relations": rel, "newcomer attributes after update": {k: list(v) for k, v in newcomer.attributes.items()}}
        exp = {"relations": [("m1", "e1", 1)], "newcomer attributes after update": before}
        return {"inputs": "create g1 <- m1 <- e1; delete(g1); update([m1 without Parent, Note=n], merge)", "expected": exp, "observed": obs, "violates": obs != exp}
    finally:
        shutil.rmtree(d, ignore_errors=True)


def unit_merge_candidate(U):
    """'merge' with a stored candidate that agrees on the compared columns: the stored record gets the union of both
    attribute sets; the NEWCOMER is left exactly as it arrived (its attributes mapping and value lists are not written:
    the caller files the newcomer's own Parent links afterwards)"""
    import builtins
    import copy as _copy
    it = _interp()

    def dcopy(interp, args, kwargs):
        def cp(x):
            if isinstance(x, dict):
                return {k: cp(v) for k, v in x.items()}
            if isinstance(x, list):
                return [cp(v) for v in x]
            if isinstance(x, Attributes):
                a = object.__new__(Attributes)
                a._d = cp(x._d)
                return a
            return x
        return cp(args[0])
    it.contracts[_copy.deepcopy] = dcopy

    def run(ctx):
        fid, _ = IM.sval("f.ID")
        n1, _ = IM.sval("f.Note")
        p1, _ = IM.sval("cand.Parent")
        f, _ = IM.sym_feature("f", {"ID": [fid], "Note": [n1]})
        f.id = fid
        cand = blank_feature(id=fid, seqid=f.seqid, source=f.source, featuretype=f.featuretype, start=f.start, end=f.end, score=f.score, strand=f.strand, frame=f.frame)
        ca = object.__new__(Attributes)
        ca._d = {"ID": [fid], "Parent": [p1]}
        cand.attributes = ca
        it.contracts[C._DBCreator._candidate_merges] = lambda interp, a, k: [cand]
        base_set = it.models.b_set
        from pyvc.core import has_sym
        it.models.table[builtins.set] = lambda x=(): ([y for i_, y in enumerate(list(x)) if all(y is not z for z in list(x)[:i_])] if has_sym(list(x), 1) else base_set(x))
        ctx.assumed_models.add("set(<distinct symbolic strings>) == those strings (order abstracted)")
        cr = IM.blank_creator(C._GFFDBCreator, ghostdb.GhostConn(), merge_strategy="merge")
        snap = {k: list(v) for k, v in f.attributes._d.items()}
        ctx.stash.update(f=f, cand=cand, snap=snap, fd=f.attributes._d, lists={k: v for k, v in f.attributes._d.items()})
        return it.call(C._DBCreator._do_merge, [cr, f, "merge"], {})

    replay = native_delete_then_merge
    for p in U.explore(run, it):
        ok = p.kind == "return" and isinstance(p.value, tuple) and p.value[1] == "merge"
        if ok:
            st = p.ctx.stash
            fixed = p.value[0]
            fa = st["f"].attributes
            d = fixed.attributes._d if isinstance(fixed.attributes, Attributes) else fixed.attributes
            ok = (fixed is st["cand"] and isinstance(d, dict) and set(d) == {"ID", "Note", "Parent"}
                  and fa._d is st["fd"] and set(fa._d) == set(st["snap"]) and all(fa._d[k] is st["lists"][k] and len(fa._d[k]) == len(st["snap"][k]) and all(x is y for x, y in zip(fa._d[k], st["snap"][k])) for k in st["snap"])
                  and fixed.attributes is not fa and all(d[k] is not fa._d.get(k) for k in d))
        U.prove("C05.do_merge.merge.candidate#p%d" % p.index,
                "a candidate agrees on the compared columns ==> it is returned carrying the union of both attribute sets; the newcomer's own mapping and value lists are not written and not shared with the result",
                [], z3.BoolVal(bool(ok)), {}, replay=replay)


FORCE_FIELDS = [(), ("source",), ("source", "score"), ("score", "source"), ("frame", "score", "source"), ("strand", "featuretype")]


def _native_merge_fields(fmt, fmf):
    """replay: three colliding lines that differ in the forced columns, through the real create_db"""
    vals = {"source": ["sA", "sB", "sC"], "score": ["1", "2", "3"], "frame": ["0", "1", "2"], "strand": ["+", "-", "."], "featuretype": ["exon", "CDS", "utr"]}
    feats = []
    for i in range(3):
        kw = {c: vals[c][i] for c in fmf}
        if fmt == "gff":
            feats.append(F.Feature(seqid="c", source=kw.pop("source", "s"), featuretype=kw.pop("featuretype", "exon"), start=1, end=5, score=kw.pop("score", "."),
                                   strand=kw.pop("strand", "+"), frame=kw.pop("frame", "."), attributes={"ID": ["k"], "Name": ["n%d" % i]}))
        else:
            feats.append(F.Feature(seqid="c", source=kw.pop("source", "s"), featuretype=kw.pop("featuretype", "exon"), start=1, end=5, score=kw.pop("score", "."),
                                   strand=kw.pop("strand", "+"), frame=kw.pop("frame", "."), attributes={"gene_id": ["g"], "transcript_id": ["t"], "exon_id": ["k"], "Name": ["n%d" % i]}))
    kw = dict(id_spec="ID") if fmt == "gff" else dict(id_spec={"exon": "exon_id", "CDS": "exon_id", "utr": "exon_id", "gene": "gene_id", "transcript": "transcript_id"},
                                                       disable_infer_genes=True, disable_infer_transcripts=True)
    dial = dict(constants.dialect, fmt="gtf") if fmt == "gtf" else None
    try:
        db = gffutils.create_db([copy_feature(f, dial) for f in feats], ":memory:", merge_strategy="merge", force_merge_fields=list(fmf), dialect=dial, **kw)
        row = db["k"]
    except Exception as e:
        return {"inputs": {"force_merge_fields": list(fmf), "lines": [str(f) for f in feats]}, "observed": "raised %r" % (e,), "violates": True}
    exp = {c: ",".join(sorted(set(vals[c]))) for c in fmf}
    got = {c: getattr(row, c) for c in fmf}
    return {"inputs": {"force_merge_fields": list(fmf), "lines": [str(f) for f in feats]}, "expected": exp, "observed": got,
            "violates": any(sorted(got[c].split(",")) != sorted(exp[c].split(",")) for c in fmf) or sorted(row.attributes["Name"]) != ["n0", "n1", "n2"]}


def _native_merge_links(fmt):
    """replay for the links of merged records: lines that merge (same key, same columns) but name different parents"""
    n = 6
    if fmt == "gff":
        feats = [mkfeat("p%d" % i) for i in range(n)] + [mkfeat("k", ft="exon", Parent=["p%d" % i]) for i in range(n)]
        kw = dict(id_spec="ID")
        dial = None
        exp = {("p%d" % i, "k", 1) for i in range(n)}
    else:
        feats = [F.Feature(seqid="c", source="s", featuretype="exon", start=1, end=5, strand="+", attributes={"gene_id": ["g"], "transcript_id": ["t%d" % i], "exon_id": ["k"]}) for i in range(n)]
        kw = dict(id_spec={"exon": "exon_id", "gene": "gene_id", "transcript": "transcript_id"}, disable_infer_genes=True, disable_infer_transcripts=True)
        dial = dict(constants.dialect, fmt="gtf")
        exp = {("t%d" % i, "k", 1) for i in range(n)} | {("g", "t%d" % i, 1) for i in range(n)} | {("g", "k", 2)}
    out = {}
    bad = False
    for mode in ("create_db", "create_db+update"):
        try:
            cut = len(feats) if mode == "create_db" else len(feats) - 2
            db = gffutils.create_db([copy_feature(f, dial) for f in feats[:cut]], ":memory:", merge_strategy="merge", dialect=dial, **kw)
            if cut < len(feats):
                db.update([copy_feature(f, dial) for f in feats[cut:]], merge_strategy="merge", make_backup=False, **{k: v for k, v in kw.items() if k != "id_spec"}, id_spec=kw["id_spec"])
            rel = {tuple(r) for r in db.conn.execute("SELECT parent, child, level FROM relations")}
            out[mode] = sorted(exp - rel)
            if fmt == "gff":
                rel = {r for r in rel if r[2] == 1}
            if not exp <= rel:
                bad = True
        except Exception as ex:
            out[mode] = "raised %r" % (ex,)
            bad = True
    return {"inputs": {"fmt": fmt, "lines": [str(f) for f in feats[-n:]], "merge_strategy": "merge"}, "expected": "every line's own parent link is filed under the merged record", "observed": {"links missing": out}, "violates": bad}


def unit_collision_merge(U):
    """the populate loop when the collision is resolved by merging (the merged record `fixed` is what
    _do_merge returned, contract C05.do_merge.*): the stored row under fixed.id gets fixed's attributes and,
    for every forced field, fixed's value in THAT column; the newcomer's links are filed under fixed.id"""
    import lark
    for cls, fmt in ((C._GFFDBCreator, "gff"), (C._GTFDBCreator, "gtf")):
        for fmf in FORCE_FIELDS:
            it = _interp()

            def run(ctx, cls=cls, fmf=fmf, it=it):
                fid, _ = IM.sval("f.ID")
                kid, _ = IM.sval("fixed.id")
                parents, plen, pat = IM.sym_seq_of_strings("f.Parent")
                ctx.assume(plen >= 0)
                tid, _ = IM.sval("f.transcript_id")
                gid, _ = IM.sval("f.gene_id")
                if cls is C._GFFDBCreator:
                    attrs = {"ID": [fid], "Parent": parents}
                else:
                    attrs = {"gene_id": [gid], "transcript_id": [tid], "ID": [fid]}
                f, _ = IM.sym_feature("f", attrs)
                fixed, _ = IM.sym_feature("fixed", {"ID": [fid]})
                fixed.id = kid
                state = {"n": 0}

                def on_execute(cur, q, a):
                    st = Q.parse(q)
                    if st.kind == "insert" and IM.insert_info(st.node)[0] == "features":
                        state["n"] += 1
                        if state["n"] == 1:
                            raise sqlite3.IntegrityError("UNIQUE constraint failed: features.id")
                conn = ghostdb.GhostConn(on_execute=on_execute)
                cr = IM.blank_creator(cls, conn, id_spec="ID", merge_strategy="merge", counters=IM.SymMap("cnt"), force_merge_fields=list(fmf))
                it.contracts[C._DBCreator._do_merge] = lambda interp, a, k: (fixed, "merge")
                ctx.stash.update(f=f, fixed=fixed, kid=kid, parents=parents, tid=tid, gid=gid)
                it.call(cls._populate_from_lines, [cr, [f]], {})
                return f
            base = "C05.%s.collision[merge,force=%s]" % (fmt, "+".join(fmf) or "none")
            replay = lambda m, fmt=fmt, fmf=fmf: _native_merge_fields(fmt, fmf or ("source",))
            for p in U.explore(run, it):
                if p.kind != "return":
                    U.prove(base + ".noraise#p%d" % p.index, "raises nothing (got %r)" % (p.value,), p.pc, z3.BoolVal(False), {}, replay=replay)
                    continue
                h = p.ctx.stash
                fixed, kid = h["fixed"], h["kid"]
                effs = IM.classify(p.ctx.effects)
                stm = [e for e in effs if e.kind in ("insert", "update", "delete")][1:]
                ups = [e for e in stm if e.table == "features"]
                pairs, conds = [], []
                wellformed = all(e.kind == "update" for e in ups) and bool(ups)
                for e in ups if wellformed else []:
                    node = e.stmt.node
                    assigns = [c for c in node.children if isinstance(c, lark.Tree) and c.data == "assign"]
                    where = [c for c in node.children if isinstance(c, lark.Tree) and c.data == "where"]
                    args = list(e.args)
                    if len(where) != 1 or len(args) != len(assigns) + 1 or any(Q.expr_text(a.children[-1]).strip() != "?" for a in assigns):
                        wellformed = False
                        break
                    conds.append(z3.BoolVal(Q.expr_text(where[0].children[-1]).replace(" ", "") in ("cmp[id,=,?]", "cmp[features.id,=,?]")))
                    conds.append(_streq(args[-1], kid))
                    for a, v in zip(assigns, args[:-1]):
                        pairs.append((str(a.children[0]), v))
                want = ["attributes"] + list(fmf)
                goal = z3.BoolVal(False)
                if wellformed and sorted(c for c, v in pairs) == sorted(want):
                    for c, v in pairs:
                        if c == "attributes":
                            conds.append(z3.BoolVal(isinstance(v, IM.OpaqueJSON) and v.of is fixed.attributes))
                        else:
                            conds.append(_streq(v, getattr(fixed, c)))
                    goal = z3.And(*conds)
                U.prove(base + ".row#p%d" % p.index,
                        "'merge' ==> only UPDATEs WHERE id = <id of the merged record>; attributes := json(merged attributes) and, for every field of force_merge_fields, column <field> := merged.<field> (column and value in lock-step); no other column written",
                        p.pc, goal, {}, replay=replay)
                rel = [e for e in stm if e.table == "relations"]
                goals = [z3.BoolVal(all(e.kind == "insert" for e in rel))] + _rel_goals([e for e in rel if e.kind == "insert"], fmt, kid, h) + \
                    [_rel_present([e for e in rel if e.kind == "insert"], fmt, kid, h)]
                U.prove(base + ".relations#p%d" % p.index, "'merge' ==> the NEWCOMER's own links (its Parent values / its transcript_id and gene_id) are filed, under the id of the record it was merged into; nothing else touches relations",
                        p.pc, z3.And(*goals), {}, replay=lambda m, fmt=fmt: _native_merge_links(fmt))
                other = [e for e in stm if e.table not in ("features", "relations")]
                U.prove(base + ".frame#p%d" % p.index, "'merge' step writes no other table", p.pc, z3.BoolVal(not other), {}, replay=replay)


def unit_merge_no_candidate(U):
    """'merge' when no stored candidate agrees on the other columns: the newcomer is filed under a
    fresh '<key>_n' and (requested key, fresh key) is recorded in duplicates"""
    it = _interp()

    def run(ctx):
        fid, _ = IM.sval("f.ID")
        f, fv = IM.sym_feature("f", {"ID": [fid]})
        f.id = fid
        cand, cv = IM.sym_feature("cand", {"ID": [fid]})
        cand.id = fid
        ctx.assume(cand.start.e != f.start.e)          # some compared column differs
        cnt = IM.SymMap("cnt")
        cr = IM.blank_creator(C._GFFDBCreator, ghostdb.GhostConn(), counters=cnt, merge_strategy="merge")
        it.contracts[C._DBCreator._candidate_merges] = lambda interp, a, k: [cand]
        ctx.stash.update(f=f, fid=fid, cnt=cnt)
        return it.call(C._DBCreator._do_merge, [cr, f, "merge"], {})

    def replay(m):
        feats = [mkfeat("k", start=1), mkfeat("k", start=2), mkfeat("k", start=2, Name="second")]
        db = gffutils.create_db(feats, ":memory:", merge_strategy="merge")
        dup = sorted(tuple(r) for r in db.conn.execute("SELECT idspecid, newid FROM duplicates"))
        ids = sorted(f.id for f in db.all_features())
        return {"inputs": [str(f) for f in feats], "expected": [[("k", "k_1")], ["k", "k_1"]], "observed": [dup, ids], "violates": dup != [("k", "k_1")] or ids != ["k", "k_1"]}
    for p in U.explore(run, it):
        st = p.ctx.stash
        ok = p.kind == "return" and isinstance(p.value, tuple) and p.value[0] is st["f"] and p.value[1] == "create_unique"
        goal = z3.BoolVal(False)
        if ok:
            k, a = _auto(st["fid"], st["cnt"].arr0)
            effs = IM.classify(p.ctx.effects)
            ins = [e for e in effs if e.kind == "insert"]
            if len(ins) == 1 and ins[0].table == "duplicates":
                t, conflict, cols, vals = IM.insert_values(ins[0])
                row = dict(zip(cols or Q.TABLE_COLS["duplicates"], vals))
                goal = z3.And(_streq(st["f"].id, k), st["cnt"].arr == a, IM.veq(row["idspecid"], st["fid"]), IM.veq(row["newid"], k), z3.BoolVal(conflict is None))
        U.prove("C05.do_merge.merge.no_candidate#p%d" % p.index,
                "no candidate agrees on the compared columns ==> the newcomer becomes '<key>_<counters[key]+1>' and exactly the row (requested key, fresh key) is recorded in duplicates",
                p.pc, goal, {}, replay=replay)


def unit_init(U):
    """merge + start/end in force_merge_fields is rejected before anything else happens"""
    it = _interp()
    for fields in (["start"], ["end", "source"], ("source", "start")):
        def run(ctx, fields=fields):
            cr = object.__new__(C._GFFDBCreator)
            it.call(C._DBCreator.__init__, [cr, "<data>", ":memory:"], {"merge_strategy": "merge", "force_merge_fields": fields})

        def replay(m, fields=fields):
            try:
                gffutils.create_db([mkfeat("a")], ":memory:", merge_strategy="merge", force_merge_fields=list(fields))
                return {"inputs": fields, "observed": "accepted", "violates": True}
            except ValueError:
                return {"inputs": fields, "observed": "ValueError", "violates": False}
        for p in U.explore(run, it):
            U.prove("C05.init.force_fields[%s]#p%d" % (",".join(fields), p.index), "merge with start/end in force_merge_fields ==> raises ValueError (no connection, no file touched)",
                    p.pc, z3.BoolVal(p.kind == "raise" and isinstance(p.value, ValueError) and not p.ctx.effects), {}, replay=replay)


def collision_sequences(thorough):
    """small alphabet of colliding lines: (start variant, attribute set, source, strand)"""
    starts = (1, 2)
    attrsets = ({"Name": ["a"]}, {"Name": ["b"], "Note": ["x"]}, {"Name": ["a", "c"]})
    sources = ("s1", "s2")
    alphabet = [(s, a, src) for s in starts for a in range(len(attrsets)) for src in sources]
    L = 4 if thorough else 3
    for n in range(2, L + 1):
        for seq in itertools.product(alphabet, repeat=n):
            if not thorough and n == 3 and (seq[0] != alphabet[0] and seq[0] != alphabet[5]):
                continue
            if n == 4 and seq[0] != alphabet[0]:
                continue
            yield [(s, attrsets[a], src) for (s, a, src) in seq]


def unit_bounded_merge(U):
    """Bounded stand-in for the 'merge' strategy (and the others end-to-end): real create_db / update
    vs the reference step model."""
    fails, cases = [], 0
    distinct = set()
    for strat in ("merge", "create_unique", "replace", "warning"):
        for fmf in ((), ("source",)):
            if fmf and strat != "merge":
                continue
            for seq in collision_sequences(U.thorough):
                if not fmf and any(src != "s1" for (_, _, src) in seq) and strat != "merge":
                    continue
                for mode in ("create", "update", "update_late"):
                    if mode == "update" and (len(seq) > 3 or not U.thorough and len(seq) > 2):
                        continue
                    # update_late: the first collision happens inside create_db, a later arrival comes through update() on the
                    # returned object - the '<key>_n' numbering must go on where the first import stopped
                    if mode == "update_late" and (len(seq) != 3 or strat in ("replace", "warning")):
                        continue
                    feats = [mkfeat("par1"), mkfeat("par2")]
                    for j, (s, a, src) in enumerate(seq):
                        feats.append(mkfeat("k", ft="mRNA", start=s, source=src, Parent=["par%d" % (1 + j % 2)], **{k: list(v) for k, v in a.items()}))
                    ref = RefDB("gff3", "ID")
                    try:
                        for f in feats:
                            ref.step(f, strat, fmf)
                        ref.finish_gff()
                        exp = ref.snapshot()
                    except (KeyError, NotImplementedError):
                        continue
                    cases += 1
                    distinct.add((strat, fmf, mode, repr(seq)))
                    try:
                        if mode == "create":
                            db = gffutils.create_db([copy_feature(f) for f in feats], ":memory:", merge_strategy=strat, force_merge_fields=list(fmf) or None)
                        else:
                            cut = 3 if mode == "update" else 4
                            db = gffutils.create_db([copy_feature(f) for f in feats[:cut]], ":memory:", merge_strategy=strat, force_merge_fields=list(fmf) or None)
                            db.update([copy_feature(f) for f in feats[cut:]], merge_strategy=strat, force_merge_fields=list(fmf) or None, make_backup=False)
                        got = real_snapshot(db)
                    except Exception as e:
                        fails.append({"case": {"strategy": strat, "force_merge_fields": fmf, "mode": mode, "lines": [str(f) for f in feats]}, "expected": "no exception", "observed": repr(e)})
                        continue
                    bad = dict(got[0]) != dict(exp[0]) or got[1] != exp[1]
                    if bad:
                        fails.append({"case": {"strategy": strat, "force_merge_fields": list(fmf), "mode": mode, "lines": [str(f) for f in feats]},
                                      "expected": {"features": list(exp[0].items()), "relations": sorted(exp[1])},
                                      "observed": {"features": list(got[0].items()), "relations": sorted(got[1])}})
    U.bounded_result("C05.bounded.merge", "database after create_db / update == fold of the reference step (merge, create_unique, replace, warning; force_merge_fields=source)",
                     "all collision sequences of length <= %d over 2 start variants x 3 attribute sets x 2 sources on one key, GFF3, create_db and update" % (4 if U.thorough else 3),
                     cases, fails, distinct=len(distinct))


def unit_bounded_force_fields(U):
    """bounded: three colliding lines differing in the forced columns, every FORCE_FIELDS order, both importers"""
    fails, cases = [], 0
    for fmt in ("gff", "gtf"):
        for fmf in FORCE_FIELDS:
            if not fmf:
                continue
            cases += 1
            r = _native_merge_fields(fmt, fmf)
            if r.get("violates"):
                fails.append({"case": {"fmt": fmt, "force_merge_fields": list(fmf)}, "expected": r.get("expected"), "observed": r.get("observed"), "inputs": r.get("inputs")})
    U.bounded_result("C05.bounded.force_fields", "merge + force_merge_fields: each forced column holds the comma-joined distinct values of THAT column; attributes are the union",
                     "3 colliding lines x %d field lists (1-3 fields, alphabetical and not) x GFF3/GTF importers" % (len(FORCE_FIELDS) - 1), cases, fails, distinct=cases)


def unit_bounded_explicit(U):
    """an explicit id equal to a generated key (known finding F15)"""
    fails = []
    for strat in ("create_unique", "merge"):
        feats = [mkfeat("k"), mkfeat("k_1"), mkfeat("k", start=5)]
        try:
            db = gffutils.create_db(feats, ":memory:", merge_strategy=strat)
            ids = sorted(f.id for f in db.all_features())
            if len(ids) != 3:
                fails.append({"case": {"strategy": strat, "lines": [str(f) for f in feats]}, "expected": "three features kept", "observed": ids})
        except sqlite3.IntegrityError as e:
            fails.append({"case": {"strategy": strat, "lines": [str(f) for f in feats]}, "expected": "three features kept, the third under a fresh key", "observed": repr(e)})
    U.bounded_result("C05.bounded.explicit_generated_key", "create_unique/merge keep all features even when an explicit id equals a generated key", "lines k, k_1, k x 2 strategies", 2, fails, exhaustive=True)


def unit_bounded_after_duplicate(U):
    """Bounded: a duplicate that is resolved (ignored, replaced, filed under a fresh key, merged) does not change what happens
    to the lines AFTER it in the same import: their Parent links are recorded as for any other line"""
    from contracts import importer as IM_
    fails, cases = [], 0
    mk = lambda i, t, par=None, **a: F.Feature(seqid="c", source="s", featuretype=t, start=1, end=9, strand="+", attributes=dict(dict({"ID": [i]}, **({"Parent": par} if par else {})), **{k: [v] for k, v in a.items()}))
    head = [mk("g", "gene"), mk("m", "mRNA", ["g"]), mk("k", "exon", ["m"], Note="first")]
    dup = mk("k", "exon", ["m"], Note="second")
    tail = [mk("x", "exon", ["m"]), mk("m2", "mRNA", ["g"]), mk("y", "exon", ["m2", "m"])]
    for strat in ("warning", "replace", "create_unique", "merge"):
        for via in ("create_db", "update"):
            cases += 1
            try:
                if via == "create_db":
                    db = gffutils.create_db([IM_._copyf(f) for f in head + [dup] + tail], ":memory:", merge_strategy=strat)
                else:
                    db = gffutils.create_db([IM_._copyf(f) for f in head], ":memory:")
                    db.update([IM_._copyf(f) for f in [dup] + tail], merge_strategy=strat, make_backup=False)
                rel = {(r["parent"], r["child"], r["level"]) for r in db.execute("SELECT parent, child, level FROM relations")}
                exp_tail = {r for r in IM_.expected_gff3_relations(head + tail) if r[1] in ("x", "m2", "y")}
                missing = sorted(exp_tail - rel)
                if missing:
                    fails.append({"case": {"merge_strategy": strat, "via": via, "lines": [str(f) for f in head + [dup] + tail]}, "expected": "relations of the lines after the duplicate: %r" % sorted(exp_tail), "observed": "missing %r" % missing})
            except Exception as e:
                fails.append({"case": {"merge_strategy": strat, "via": via}, "expected": "no exception", "observed": repr(e)})
    U.bounded_result("C05.bounded.after_duplicate", "the Parent links of the lines that follow a resolved duplicate are recorded", "4 strategies x create_db / update", cases, fails)

def unit_bounded_repeats(U):
    """Bounded: 'merge' unions the attribute values WITHOUT repeats also when a line carries the same value twice under one
    key itself - the stored line, the arriving line, or both (GFF3 comma lists and GTF repeated keys; create_db / update)"""
    fails, cases = [], 0
    gff = lambda note: "c\ts\tgene\t1\t9\t.\t+\t.\tID=k;Note=%s" % note
    gtf = lambda tags: "c\ts\texon\t1\t9\t.\t+\t.\tgene_id \"g\"; transcript_id \"t\"; %s" % " ".join('tag "%s";' % t for t in tags)
    pairs = [(["a"], ["b", "b", "a"]), (["a", "a"], ["b"]), (["x", "x"], ["x", "y", "y"]), (["a"], ["a", "a"]), (["p", "q"], ["q", "q", "p", "r"])]
    for fmt in ("gff3", "gtf"):
        for first, second in pairs:
            for via in ("create_db", "update"):
                cases += 1
                if fmt == "gff3":
                    l1, l2, key, kw, fid = gff(",".join(first)), gff(",".join(second)), "Note", {}, "k"
                else:
                    l1, l2, key, kw, fid = gtf(first), gtf(second), "tag", {"id_spec": {"exon": "transcript_id"}, "disable_infer_genes": True, "disable_infer_transcripts": True}, "t"
                case = {"format": fmt, "stored line": l1, "arriving line": l2, "via": via}
                try:
                    if via == "create_db":
                        db = gffutils.create_db(l1 + "\n" + l2 + "\n", ":memory:", from_string=True, merge_strategy="merge", **kw)
                    else:
                        db = gffutils.create_db(l1 + "\n", ":memory:", from_string=True, merge_strategy="merge", **kw)
                        db.update(l2 + "\n", from_string=True, merge_strategy="merge", make_backup=False, **kw)
                    got = list(db[fid].attributes[key])
                    exp = sorted(set(first) | set(second))
                    if sorted(got) != exp or db.count_features_of_type() != 1:
                        fails.append(dict(case, expected={key: exp, "features": 1}, observed={key: got, "features": db.count_features_of_type()}))
                except Exception as e:
                    fails.append(dict(case, expected="merged", observed=repr(e)))
    # a key WITHOUT values (a flag such as ';partial', GTF 'partial "";') on either line is a key of the union
    for fmt in ("gff3", "gtf"):
        for flag_on in ("stored", "arriving", "both"):
            for via in ("create_db", "update"):
                cases += 1
                if fmt == "gff3":
                    mkl = lambda flag, note: "c\ts\tgene\t1\t9\t.\t+\t.\tID=k;%sNote=%s" % ("partial;" if flag else "", note)
                    kw, fid = {}, "k"
                else:
                    mkl = lambda flag, note: "c\ts\texon\t1\t9\t.\t+\t.\tgene_id \"g\"; transcript_id \"t\"; %snote \"%s\";" % ('partial ""; ' if flag else "", note)
                    kw, fid = {"id_spec": {"exon": "transcript_id"}, "disable_infer_genes": True, "disable_infer_transcripts": True}, "t"
                l1, l2 = mkl(flag_on in ("stored", "both"), "a"), mkl(flag_on in ("arriving", "both"), "b")
                case = {"format": fmt, "stored line": l1, "arriving line": l2, "via": via}
                try:
                    if via == "create_db":
                        db = gffutils.create_db(l1 + "\n" + l2 + "\n", ":memory:", from_string=True, merge_strategy="merge", **kw)
                    else:
                        db = gffutils.create_db(l1 + "\n", ":memory:", from_string=True, merge_strategy="merge", **kw)
                        db.update(l2 + "\n", from_string=True, merge_strategy="merge", make_backup=False, **kw)
                    at = db[fid].attributes
                    got = {k: sorted(x for x in at[k] if x != "") for k in at.keys()}
                    nk = "Note" if fmt == "gff3" else "note"
                    if "partial" not in got or got["partial"] != [] or got.get(nk) != ["a", "b"]:
                        fails.append(dict(case, expected={"partial": [], nk: ["a", "b"]}, observed=got))
                except Exception as e:
                    fails.append(dict(case, expected="merged", observed=repr(e)))
    U.bounded_result("C05.bounded.repeats_within_a_line", "'merge' stores each value of the union once, whichever line repeats it", "5 value-list pairs x GFF3 / GTF x create_db / update; a value-less key on the stored / arriving / both lines", cases, fails)

def unit_bounded_numbered_keys(U):
    """Bounded: the key handed out for a later arrival is '<key>_<n>' of the COLLIDING key, whatever that key looks like -
    also a key that itself ends in '_<digits>' (mRNA_7 -> mRNA_7_1, mRNA_7_2), with and without a feature stored under the
    stem's own numbering, under create_unique and under the no-candidate fallback of merge, in create_db and update"""
    fails, cases = [], 0
    for key in ("mRNA_7", "g_2", "e_10", "x_0", "a_b_3"):
        stem = key.rsplit("_", 1)[0]
        for strat in ("create_unique", "merge"):
            for with_stem_feature in (False, True):
                for via in ("create_db", "update"):
                    cases += 1
                    feats = [mkfeat(key, start=1), mkfeat(key, start=5), mkfeat(key, start=7)]
                    if with_stem_feature:
                        feats.insert(0, mkfeat(stem + "_1", start=3))
                    exp = sorted([f.attributes["ID"][0] for f in feats[:-2]] + [key + "_1", key + "_2"])
                    case = {"lines": [str(f) for f in feats], "merge_strategy": strat, "via": via}
                    try:
                        if via == "create_db":
                            db = gffutils.create_db([copy_feature(f) for f in feats], ":memory:", merge_strategy=strat)
                        else:
                            db = gffutils.create_db([copy_feature(f) for f in feats[:-1]], ":memory:", merge_strategy=strat)
                            db.update([copy_feature(feats[-1])], merge_strategy=strat, make_backup=False)
                        got = sorted(f.id for f in db.all_features())
                        starts = {f.id: f.start for f in db.all_features()}
                        if got != exp or (starts.get(key), starts.get(key + "_1"), starts.get(key + "_2")) != (1, 5, 7):
                            fails.append(dict(case, expected={"keys": exp, "starts": {key: 1, key + "_1": 5, key + "_2": 7}}, observed={"keys": got, "starts": starts}))
                    except Exception as e:
                        fails.append(dict(case, expected=exp, observed=repr(e)))
    U.bounded_result("C05.bounded.numbered_keys", "later arrivals of a key that ends in '_<digits>' are filed under '<that key>_<n>'", "5 keys x create_unique / merge fallback x with / without a feature '<stem>_1' x create_db / update", cases, fails)

from pyvc.harness import dep_unit as _dep_unit

UNITS = [("dep.delete", _dep_unit("C10", "unit_delete", "C10", "C05.dep", "delete() removes the features and their relations and nothing else - in particular not the records of the duplicates table that later merges consult (the C10 obligations), discharged in this check as well")), ("bounded.numbered_keys", unit_bounded_numbered_keys), ("bounded.repeats", unit_bounded_repeats), ("bounded.after_duplicate", unit_bounded_after_duplicate), ("bounded.explicit", unit_bounded_explicit), ("do_merge", unit_do_merge), ("candidates", unit_candidates), ("merge_candidate", unit_merge_candidate), ("get_feature", unit_get_feature), ("collision_merge", unit_collision_merge), ("merge_no_candidate", unit_merge_no_candidate), ("collision", unit_collision), ("collision_each", unit_collision_each), ("init", unit_init), ("bounded.merge", unit_bounded_merge), ("bounded.force_fields", unit_bounded_force_fields)]


def replay_known(entry):
    """stored witnesses of the known findings of C05"""
    w = entry.get("replay")
    if w == "replace-stale-links":
        r = _native_collision("gff", "replace")
        return bool(r.get("violates"))
    if w == "explicit-id-equals-generated":
        try:
            gffutils.create_db([mkfeat("k"), mkfeat("k_1"), mkfeat("k", start=5)], ":memory:", merge_strategy="create_unique")
            return False
        except sqlite3.IntegrityError:
            return True
    return None


def replay_file(doc):
    return {"error": "re-run ./check C05 to regenerate and replay this obligation", "violates": None, "stored": doc.get("inputs")}
