"""C19 - existing databases are never clobbered; queries never write."""
import z3

import gffutils
import gffutils.create as C
import gffutils.interface as I
import gffutils.helpers as H
import gffutils.bins as B
import gffutils.feature as F
from gffutils import constants
from gffutils.attributes import Attributes

from pyvc.core import SInt, SStr, Val, Lit, Undecided, Ctx, mkstr
from pyvc.interp import Interp
from pyvc import ghostdb, sqlmodel as Q
from contracts.common import bins_contract, blank_feature
from contracts import importer as IM
from contracts import pipeline as PL
from contracts.qharness import blank_db
from props.C16 import sfeat

LEVEL = "proof"
EXPLANATION = ("create_db is executed symbolically end to end on ghost files over the ghost file system and database: with force=False on a path "
               "that already holds a gffutils database no unlink happens, the first content-affecting statement is executescript(SCHEMA) "
               "(CREATE TABLE without IF NOT EXISTS, read from the real constants.SCHEMA), it raises and no INSERT/UPDATE/DELETE was issued "
               "before it; with force=True the file is unlinked before the connection is opened, so every table starts empty.  Frame "
               "conditions: each read-style method (look-up, all_features, features_of_type, counts, featuretypes, seqids, children, "
               "parents, iter_by_parent_childs, region, interfeatures, create_introns, create_splice_sites, merge, children_bp, bed12) is "
               "executed symbolically with arbitrary rows returned by the ghost cursor; along every path every statement reaching "
               "execute() is a SELECT (or sqlite_master probe) and commit() is never called.")
TRUSTED = ["T1", "T3 statement classification of pyvc/sqlmodel.py", "contracts/pipeline.py"]
ASSUMPTIONS = ["A-S1 CREATE TABLE on an existing table raises OperationalError and changes nothing", "A-S2 nothing is written to the file without a DML statement / commit",
               "merge() bumps only the in-memory id counter (persisted counters unchanged) - stated, not a write"]
PRECONDITIONS = []
FUNCTIONS = ["gffutils.create:create_db", "gffutils.create:_DBCreator.__init__", "gffutils.create:_DBCreator._init_tables", "gffutils.create:_DBCreator.create"] + \
            ["gffutils.interface:FeatureDB.%s" % m for m in ("__getitem__", "all_features", "features_of_type", "count_features_of_type", "featuretypes", "seqids",
                                                              "children", "parents", "iter_by_parent_childs", "region", "interfeatures", "create_introns",
                                                              "create_splice_sites", "merge", "children_bp", "bed12")]


def _replay_force(force, existing, state):
    import tempfile, os, shutil
    d = tempfile.mkdtemp()
    try:
        dbfn = os.path.join(d, "x.db")
        old = "##gff-version 3\n##species old\nold\t.\tgene\t1\t5\t.\t+\t.\tID=oldgene\nold\t.\texon\t1\t5\t.\t+\t.\tParent=oldgene\n"
        new = [F.Feature(seqid="new", featuretype="gene", start=1, end=5, attributes={"ID": ["newgene"]})]
        if existing:
            odb = gffutils.create_db(old, dbfn, from_string=True)
            if state == "emptied":
                odb.delete(list(odb.all_features()), make_backup=False)
            odb.conn.close()
            before = open(dbfn, "rb").read()
        try:
            db = gffutils.create_db(new, dbfn, force=force)
            raised = False
        except Exception as e:
            raised = True
        if existing and not force:
            same = open(dbfn, "rb").read() == before
            bad = (not raised) or not same
            obs = "raised=%s, file unchanged=%s" % (raised, same)
        else:
            rdb = gffutils.FeatureDB(dbfn)
            ids = [f.id for f in rdb.all_features()]
            bad = raised or ids != ["newgene"] or list(rdb.directives) != []
            obs = "raised=%s ids=%r directives=%r" % (raised, ids, list(rdb.directives))
        return {"inputs": {"force": force, "existing": existing, "existing_state": state}, "observed": obs, "violates": bad}
    finally:
        shutil.rmtree(d, ignore_errors=True)


def _schema_first(cls):
    """the first content-affecting statements create the schema: one script whose text is constants.SCHEMA, or the CREATE TABLE
    statements of constants.SCHEMA run one by one (the same statements, same order, none with IF NOT EXISTS); returns
    (ok, number of leading schema statements)"""
    import re
    content = [c for c in cls if c.kind in ("insert", "update", "delete", "script", "ddl")]
    norm = lambda t: " ".join(str(t).replace(";", " ; ").split()).strip(" ;").upper()
    if "IF NOT EXISTS" in constants.SCHEMA.upper() or not content:
        return False, 0
    if content[0].kind == "script":
        return norm(content[0].raw) == norm(constants.SCHEMA), 1
    want = [norm(x) for x in re.findall(r"CREATE\s+TABLE.*?\)\s*;", constants.SCHEMA, re.S | re.I)]
    got = []
    for c in content:
        if c.kind != "ddl":
            break
        got.append(norm(c.raw))
    return bool(got) and got == want[:len(got)], len(got)


def unit_force(U):
    for force in (False, True):
        for existing in (False, True):
            it = Interp()
            run = PL.run_create_db(it, "FF", 1, existing_db=existing, force=force)
            base = "C19.create_db[force=%s,existing=%s]" % (force, existing)

            def replay(m, force=force, existing=existing):
                # the existing database is tried in two states: holding features, and emptied by delete()
                # (tables, directives and id counters present, zero feature rows)
                last = None
                for state in (("with-features", "emptied") if existing else ("absent",)):
                    last = _replay_force(force, existing, state)
                    if last.get("violates"):
                        return last
                return last
            for p in U.explore(run, it):
                effs = p.ctx.effects
                kinds = [e[0] for e in effs]
                unlinks = [e for e in effs if e[0] == "unlink" and e[1] == "/ghost/out.db"]
                cls = IM.classify([e for e in effs if e[0] in ("execute", "executemany", "executescript")])
                content = [c for c in cls if c.kind in ("insert", "update", "delete", "script")]
                if existing and not force:
                    sch_ok, nsch = _schema_first(cls)
                    ok = p.kind == "raise" and not unlinks and sch_ok and nsch == 1 and len([c for c in cls if c.kind in ("insert", "update", "delete", "script", "ddl")]) == 1
                    U.prove(base + ".refuse#p%d" % p.index, "existing database, force=False ==> raises; no unlink; schema creation is the first content-affecting statement and fails before any row is written",
                            [], z3.BoolVal(bool(ok)), {}, replay=replay)
                else:
                    # the connection the schema is created on: the last one opened before the first content-affecting statement
                    first_content = min([i for i, e in enumerate(effs) if e[0] in ("execute", "executemany", "executescript")
                                         and IM.classify([e])[0].kind in ("insert", "update", "delete", "script", "ddl")] or [len(effs)])
                    conns = [i for i, e in enumerate(effs) if e[0] == "connect" and i < first_content]
                    first_connect = conns[-1] if conns else -1
                    if force and existing:
                        ok = p.kind == "return" and len(unlinks) == 1 and effs.index(unlinks[0]) < first_connect
                        text = "force=True on an existing file ==> the file is unlinked before the connection the schema is created on is opened (all tables start empty)"
                    else:
                        ok = p.kind == "return" and not unlinks
                        text = "no existing file ==> nothing is unlinked"
                    ok = ok and _schema_first(cls)[0]
                    U.prove(base + ".fresh#p%d" % p.index, text, [], z3.BoolVal(bool(ok)), {}, replay=replay)


def _replay_empty(kind):
    """an existing database and a new input WITHOUT any feature (empty text / comments and directives only / empty list),
    force=False: the call must fail and the file must stay byte-identical"""
    import tempfile, os, shutil
    d = tempfile.mkdtemp()
    try:
        dbfn = os.path.join(d, "x.db")
        old = "##gff-version 3\nold\t.\tgene\t1\t5\t.\t+\t.\tID=oldgene\n"
        gffutils.create_db(old, dbfn, from_string=True).conn.close()
        before = open(dbfn, "rb").read()
        new = {"empty-string": ("", True), "comments-only": ("# nothing here\n##gff-version 3\n\n", True), "empty-list": ([], False)}[kind]
        try:
            gffutils.create_db(new[0], dbfn, from_string=new[1])
            raised = False
        except Exception as e:
            raised = type(e).__name__
        same = os.path.exists(dbfn) and open(dbfn, "rb").read() == before
        return {"inputs": {"existing database": "one gene", "new input": kind, "force": False}, "expected": "raises, file unchanged", "observed": "raised=%s, file unchanged=%s" % (raised, same),
                "violates": (not raised) or not same}
    finally:
        shutil.rmtree(d, ignore_errors=True)


def unit_force_empty(U):
    """the refusal also holds when the NEW input has no feature line at all (only comments / directives / blank lines): the
    call raises and the existing file is neither unlinked nor written to"""
    for kinds in ("C", "D", "CDB"):
        it = Interp()
        run = PL.run_create_db(it, kinds, 1, existing_db=True, force=False)
        base = "C19.create_db[force=False,existing=True,input=%s]" % kinds

        def replay(m):
            last = None
            for kind in ("empty-string", "comments-only", "empty-list"):
                last = _replay_empty(kind)
                if last.get("violates"):
                    return last
            return last
        for p in U.explore(run, it):
            effs = p.ctx.effects
            unlinks = [e for e in effs if e[0] == "unlink" and e[1] == "/ghost/out.db"]
            cls = IM.classify([e for e in effs if e[0] in ("execute", "executemany", "executescript")])
            rows = [c for c in cls if c.kind in ("insert", "update", "delete")]
            ok = p.kind == "raise" and not unlinks and not rows
            U.prove(base + ".refuse#p%d" % p.index, "existing database, force=False, no feature in the new input ==> raises; the file is not unlinked; no row is written", [], z3.BoolVal(bool(ok)), {}, replay=replay)


def _row_conn(ctx, rows=1):
    made = []

    def result_for(cur, kind, q, a):
        if not isinstance(q, str) and not isinstance(q, SStr):
            return []
        try:
            st = Q.parse(q)
        except Exception:
            return []
        if st.kind != "select":
            return []
        si = Q.select_info(st.node)
        cols = Q.select_cols(si)
        if cols[:2] == ["id", "seqid"]:
            out = []
            for _ in range(rows):
                r, v = ghostdb.feature_row(ctx, "row%d" % len(made))
                ctx.assume(v["row%d.start" % len(made)] <= v["row%d.end" % len(made)])
                made.append(r)
                out.append(r)
            return out
        if cols == ["count()"]:
            return [ghostdb.GhostRow(["count()"], [SInt(ctx.fresh_int("cnt"))])]
        if len(cols) == 1:
            return [ghostdb.GhostRow(cols, [SStr([Val(ctx.fresh_str(cols[0]))])])]
        return []
    return ghostdb.GhostConn(result_for=result_for)


def read_methods():
    x = lambda: SStr([Val(z3.String("x"), nonempty=True)])
    yield "getitem", lambda it, db, ctx: it.call(I.FeatureDB.__getitem__, [db, x()], {})
    yield "all_features", lambda it, db, ctx: list(it.call(I.FeatureDB.all_features, [db], {"featuretype": x(), "order_by": "start"}))
    yield "features_of_type", lambda it, db, ctx: list(it.call(I.FeatureDB.features_of_type, [db, x()], {"strand": "+"}))
    yield "count_features_of_type", lambda it, db, ctx: it.call(I.FeatureDB.count_features_of_type, [db, x()], {})
    yield "featuretypes", lambda it, db, ctx: list(it.call(I.FeatureDB.featuretypes, [db], {}))
    yield "seqids", lambda it, db, ctx: list(it.call(I.FeatureDB.seqids, [db], {}))
    yield "children", lambda it, db, ctx: list(it.call(I.FeatureDB.children, [db, x()], {"level": 1}))
    yield "parents", lambda it, db, ctx: list(it.call(I.FeatureDB.parents, [db, x()], {}))
    yield "iter_by_parent_childs", lambda it, db, ctx: list(it.call(I.FeatureDB.iter_by_parent_childs, [db], {}))
    yield "region", lambda it, db, ctx: list(it.call(I.FeatureDB.region, [db], {"seqid": x(), "start": SInt(z3.Int("S")), "end": SInt(z3.Int("E")), "completely_within": True}))
    yield "interfeatures", lambda it, db, ctx: list(it.call(I.FeatureDB.interfeatures, [db, [sfeat("a"), sfeat("b")]], {}))
    yield "create_introns", lambda it, db, ctx: list(it.call(I.FeatureDB.create_introns, [db], {}))
    yield "create_splice_sites", lambda it, db, ctx: list(it.call(I.FeatureDB.create_splice_sites, [db], {}))
    yield "merge", lambda it, db, ctx: list(it.call(I.FeatureDB.merge, [db, [sfeat("a"), sfeat("b")]], {}))
    yield "children_bp", lambda it, db, ctx: it.call(I.FeatureDB.children_bp, [db, x()], {"merge": True})
    yield "bed12", lambda it, db, ctx: it.call(I.FeatureDB.bed12, [db, x()], {})


def unit_frame(U):
    for name, call in read_methods():
        it = Interp()
        it.contracts[B.bins] = bins_contract

        def unjson(interp, a, k):
            if k.get("isattributes") or (len(a) > 1 and a[1]):
                at = object.__new__(Attributes)
                at._d = {"ID": [SStr([Val(Ctx.current.fresh_str("attr.ID"), nonempty=True)])]}
                return at
            return []
        it.contracts[H._unjsonify] = unjson
        it.contracts[H._jsonify] = lambda interp, a, k: "<json>"
        it.contracts[H.merge_attributes] = lambda interp, a, k: {"ID": [SStr([Val(Ctx.current.fresh_str("m.ID"), nonempty=True)])]}

        def run(ctx, call=call):
            ctx.assume(z3.Int("S") >= 1)
            ctx.assume(z3.Int("S") <= z3.Int("E"))
            conn = _row_conn(ctx)
            db = blank_db(conn)
            db._autoincrements = IM.SymMap("cnt")
            for n in ("a", "b"):
                ctx.assume(z3.Int(n + ".start") <= z3.Int(n + ".end"))
            ctx.stash["conn"] = conn
            try:
                call(it, db, ctx)
            except Undecided as u:
                # what the method did BEFORE the engine gave up is still known: a write issued on this (feasible) path prefix
                # violates the clause whatever follows; without one the path stays undecided
                ctx.stash["undecided"] = str(u)

        def replay(m, name=name):
            return _native_frame(name)
        npaths = 0
        gave_up = []
        for p in U.explore(run, it, max_paths=3000):
            npaths += 1
            conn = p.ctx.stash.get("conn")
            cls = IM.classify([e for e in p.ctx.effects if e[0] in ("execute", "executemany", "executescript")])
            writes = [c for c in cls if c.kind not in ("select", "noeffect")]
            commits = [e for e in p.ctx.effects if e[0] == "commit"]
            if p.ctx.stash.get("undecided") and not writes and not commits:
                # this path is cut where the engine gave up; the remaining paths (e.g. the ones that leave a loop earlier) are
                # still explored - a write on any of them decides the clause - and the unit is undecided only at the end
                gave_up.append(p.ctx.stash["undecided"])
                continue
            U.prove("C19.frame.%s#p%d" % (name, p.index), "%s issues only SELECT statements and never commits (features, relations, directives, dialect, stored counters unchanged)" % name,
                    [], z3.BoolVal(not writes and not commits), {}, replay=replay)
        if gave_up and not U.failed:
            raise Undecided(gave_up[0])


def _native_frame(name):
    """replay: run the real method on a file database and compare the reopened content"""
    import tempfile, os, shutil
    d = tempfile.mkdtemp()
    try:
        fn = os.path.join(d, "r.db")
        mk = lambda i, t, s, e, par=None: F.Feature(seqid="c", featuretype=t, start=s, end=e, strand="+", attributes=dict({"ID": [i]}, **({"Parent": [par]} if par else {})))
        feats = [mk("g", "gene", 1, 100), mk("t", "mRNA", 1, 100, "g"), mk("e1", "exon", 1, 30, "t"), mk("e2", "exon", 25, 60, "t"), mk("e3", "exon", 80, 100, "t"), mk("c1", "CDS", 5, 90, "t")]
        gffutils.create_db(feats, fn)

        def snap():
            import sqlite3
            c = sqlite3.connect(fn)
            out = {t: list(c.execute("SELECT * FROM %s" % t)) for t in ("features", "relations", "directives", "meta", "autoincrements", "duplicates")}
            out["sqlite_master"] = sorted(map(tuple, c.execute("SELECT type, name, tbl_name, sql FROM sqlite_master")))      # tables / indexes that a query left behind
            for (t,) in list(c.execute("SELECT name FROM sqlite_master WHERE type = 'table'")):
                if t not in out and not t.startswith("sqlite_"):
                    out[t] = list(c.execute('SELECT * FROM "%s"' % t.replace('"', '""')))
            c.close()
            return out
        before = snap()
        db = gffutils.FeatureDB(fn)
        calls = {
            "getitem": lambda: db["g"], "all_features": lambda: list(db.all_features(order_by="start")), "features_of_type": lambda: list(db.features_of_type("exon")),
            "count_features_of_type": lambda: db.count_features_of_type("exon"), "featuretypes": lambda: list(db.featuretypes()), "seqids": lambda: list(db.seqids()),
            "children": lambda: list(db.children("g")), "parents": lambda: list(db.parents("e1")), "iter_by_parent_childs": lambda: list(db.iter_by_parent_childs()),
            "region": lambda: [list(db.region("c:1-50")), list(db.region(seqid="c", start=1, end=2 ** 29, completely_within=True)), list(db.region(seqid="c", start=1, end=300000000, completely_within=True)),
                                list(db.region(seqid="c", start=1, end=300000000)), list(db.region(seqid="c", start=20)), list(db.region(seqid="c", end=10 ** 9, completely_within=True)),
                                list(db.region(seqid="c", start=5, end=200000000, strand="+", featuretype="exon", completely_within=True))], "interfeatures": lambda: list(db.interfeatures(db.children("t", featuretype="exon", order_by="start"))),
            "create_introns": lambda: list(db.create_introns()), "create_splice_sites": lambda: list(db.create_splice_sites()),
            "merge": lambda: list(db.merge(db.children("t", featuretype="exon", order_by="start"))), "children_bp": lambda: db.children_bp("t", merge=True),
            "bed12": lambda: db.bed12("t"),
        }
        try:
            calls[name]()
        except Exception as e:
            return {"inputs": name, "observed": "raised %r" % (e,), "violates": None}
        del db
        after = snap()
        return {"inputs": name, "expected": "tables unchanged", "observed": {k: after[k] for k in after if after[k] != before.get(k)}, "violates": after != before}
    finally:
        shutil.rmtree(d, ignore_errors=True)


def unit_fresh_iterator(U):
    """'only the new input': an iterator over the new Feature objects starts with empty directives (shared with C13)"""
    from props import C13
    C13.unit_init_state(U, prefix="C19.input")


def unit_bounded_lookup_after_rebuild(U):
    """Bounded: after create_db(new, path, force=True) the database at that path answers from the NEW input through every
    read path - also the ones used on the old database just before (look-up by id, iteration, counts), on the returned object
    and on a reopened one"""
    import tempfile, os, shutil
    fails, cases = [], 0
    mk = lambda i, ft, a, **att: F.Feature(seqid="c", source="s", featuretype=ft, start=a, end=a + 5, strand="+", attributes=dict({"ID": [i]}, **{k: [v] for k, v in att.items()}))
    d = tempfile.mkdtemp()
    try:
        path = os.path.join(d, "x.db")
        old = gffutils.create_db([mk("gene1", "gene", 1, Note="old"), mk("only_in_old", "exon", 10)], path)
        seen = [old["gene1"].attributes["Note"], old["only_in_old"].id, [f.id for f in old.all_features()], old.count_features_of_type("exon")]
        old.conn.close()
        new = gffutils.create_db([mk("gene1", "gene", 100, Note="new"), mk("only_in_new", "exon", 200)], path, force=True)
        for label, db in (("returned object", new), ("reopened", gffutils.FeatureDB(path))):
            cases += 1
            obs = {"gene1.Note": list(db["gene1"].attributes["Note"]), "gene1.start": db["gene1"].start, "ids": sorted(f.id for f in db.all_features()), "exons": db.count_features_of_type("exon")}
            try:
                db["only_in_old"]
                obs["only_in_old"] = "found"
            except gffutils.FeatureNotFoundError:
                obs["only_in_old"] = "absent"
            exp = {"gene1.Note": ["new"], "gene1.start": 100, "ids": ["gene1", "only_in_new"], "exons": 1, "only_in_old": "absent"}
            if obs != exp:
                fails.append({"case": {"history": "look-ups on the old database; create_db(new, same path, force=True); read the %s" % label}, "expected": exp, "observed": obs})
    finally:
        shutil.rmtree(d, ignore_errors=True)
    U.bounded_result("C19.bounded.lookup_after_rebuild", "after a forced rebuild every read path answers from the new input only", "one history, 2 handles", cases, fails)

UNITS = [("bounded.lookup_after_rebuild", unit_bounded_lookup_after_rebuild), ("force", unit_force), ("force_empty", unit_force_empty), ("frame", unit_frame), ("fresh_iterator", unit_fresh_iterator)]
try:
    from standins import C19 as _S
    UNITS = UNITS + list(_S.UNITS)
except ImportError:
    pass


def replay_file(doc):
    return {"error": "re-run ./check C19 to regenerate and replay this obligation", "violates": None, "stored": doc.get("inputs")}
