"""C16 - FeatureDB.merge by the fold rule: the loop body is executed once from an arbitrary loop state satisfying the
invariant, for an arbitrary next feature; the code after the loop is executed from an arbitrary such state; the global
law (maximal runs = interval union) is a lemma over the step contract.  Inputs of EVERY length.

Loop state of merge(): (current_merged, feature_children, last_id).  Invariant Inv = one of
  S0  current_merged is None, feature_children == [], last_id is None                         (nothing pending)
  S1  current_merged is an input feature g, feature_children == [], last_id is None           (pending, unchecked)
  S2  current_merged is an input feature g, feature_children == [g], last_id is None          (run of one)
  S3  current_merged is a FRESH feature m (no input), feature_children == [c0, <k >= 0 further inputs>, c1],
      m.start == min start, m.end == max end of the members, m.id == m['ID'] == last_id (non-empty);
      under the default criteria moreover m.seqid / strand / featuretype are those of every member.
"""
import z3

import gffutils
import gffutils.feature as F
import gffutils.interface as I
import gffutils.merge_criteria as MC
import gffutils.bins as B
from gffutils.attributes import Attributes

from pyvc.core import SInt, SBool, SStr, SSeq, Val, Lit, IntLit, Undecided, Ctx
from pyvc.interp import Interp, LoopExit
from pyvc.harness import install_loop_body_hook, require_loop_state
from pyvc.sqlmodel import Splice
from pyvc import ghostdb
from contracts.common import bins_contract
from contracts import importer as IM
from contracts.qharness import blank_db
from props.C04 import _streq

STATES = ("S0", "S1", "S2", "S3")


def _ident(a, b):
    return a is b


def _mk_state(ctx, shape, sfeat, default):
    """arbitrary loop state of the given shape; returns dict(cm, kids, last_id, members, ghost)"""
    if shape == "S0":
        return dict(cm=None, kids=[], last_id=None, members=[])
    g = sfeat("g")
    ctx.assume(g.start.e <= g.end.e)
    if shape == "S1":
        return dict(cm=g, kids=[], last_id=None, members=[g])
    if shape == "S2":
        return dict(cm=g, kids=[g], last_id=None, members=[g])
    # S3: fresh accumulator over c0, k generic members, c1
    c0, c1, cg = sfeat("c0"), sfeat("c1"), sfeat("cg")
    m = sfeat("m")
    k = z3.Int("k")
    ctx.assume(k >= 0)
    for c in (c0, c1, cg):
        ctx.assume(z3.And(c.start.e <= c.end.e, m.start.e <= c.start.e, c.end.e <= m.end.e))
    # the extent is attained (m.start is the start of some member, m.end the end of some member)
    ctx.assume(z3.Or(m.start.e == c0.start.e, m.start.e == c1.start.e, z3.And(k >= 1, m.start.e == cg.start.e)))
    ctx.assume(z3.Or(m.end.e == c0.end.e, m.end.e == c1.end.e, z3.And(k >= 1, m.end.e == cg.end.e)))
    lid = m.id
    m.attributes._d["ID"] = [lid]
    if default:
        for c in (c0, c1, cg):
            ctx.assume(z3.And(c.seqid.z3() == m.seqid.z3(), c.strand.z3() == m.strand.z3(), c.featuretype.z3() == m.featuretype.z3()))
    run = SSeq(k, lambda i: cg, name="members[1:-1]")
    kids = [c0, Splice(run), c1]
    return dict(cm=m, kids=kids, last_id=lid, members=[c0, cg, c1], k=k)


def install_state_hook(it, ctx, shape, sfeat, default, body):
    """body=True: fold rule (execute the body once for an arbitrary next feature); body=False: skip the loop and run the tail"""
    holder = {}

    def setup(env, c, iterable):
        for nm in ("current_merged", "feature_children", "last_id"):
            if nm not in env.vars:
                raise Undecided("merge() no longer keeps its loop state in the local `%s` (the invariant of props/C16_fold.py is stated over these names)" % nm)
        st = _mk_state(c, shape, sfeat, default)
        env.store("current_merged", st["cm"])
        env.store("feature_children", st["kids"])
        env.store("last_id", st["last_id"])
        f = sfeat("f")
        c.assume(f.start.e <= f.end.e)
        # start-ordered input (the statement's precondition): no member of the pending run starts after the next feature
        for mem in st["members"]:
            c.assume(mem.start.e <= f.start.e)
        st["f"] = f
        st["kids_obj"] = st["kids"]
        st["kids_before"] = list(st["kids"])
        holder.update(st)
        return f
    if body:
        install_loop_body_hook(it, "merge", 0, setup)
    else:
        def hook(interp, env, node, iterable):
            setup(env, Ctx.current, iterable)
            return None
        it.loop_hooks[("merge", 0)] = hook
    return holder


def _crit_stub(ctx, calls):
    class Crit(object):
        _pyvc_model = True

        def __call__(self, acc, cur, comps):
            b = ctx.fresh_bool("crit")
            calls.append((acc, cur, comps, list(comps), b))
            return SBool(b)
    return Crit()


def _native_fold_check(coords):
    """replay on the real code: merge() on concrete start-ordered features of one seqid/strand/type against the
    sweep definition of maximal runs (a feature joins iff start <= max end so far + 1)"""
    feats = []
    for i, (s, e) in enumerate(coords):
        f = F.Feature(seqid="c", source="s", featuretype="exon", start=s, end=e, strand="+", attributes={"ID": ["i%d" % i]})
        f.id = "i%d" % i
        feats.append(f)
    from contracts.qharness import native_db
    db = native_db(feats)
    inputs = sorted(feats, key=lambda f: f.start)
    runs = []
    for f in inputs:
        if runs and f.start <= runs[-1][1] + 1:
            runs[-1][1] = max(runs[-1][1], f.end)
            runs[-1][2].append(f)
        else:
            runs.append([f.start, f.end, [f]])
    try:
        out = list(db.merge(inputs))
    except Exception as e:
        return "raised %r" % (e,)
    got = [(o.start, o.end, [c.id for c in o.children] if o.children else [o.id]) for o in out]
    exp = [(r[0], r[1], [c.id for c in r[2]]) for r in runs]
    return "ok" if got == exp else "got %r expected %r" % (got, exp)


def unit_merge_fold(U):
    from props.C16 import sfeat, COLS
    battery = [[(1, 5), (3, 9), (10, 12), (14, 20)], [(1, 10), (2, 3), (11, 11), (13, 13)], [(5, 5), (5, 5), (6, 8), (10, 10), (10, 30), (12, 13), (31, 31), (33, 40)],
               [(1, 2), (2, 3), (3, 4), (4, 5), (5, 6), (6, 20), (15, 30), (31, 31), (40, 41)], [(1, 50), (2, 3), (4, 5), (6, 7), (8, 9), (10, 60), (61, 61), (63, 63)]]

    def replay(m):
        g = lambda k, d: m.get(k, d)
        cs = []
        for nm in ("c0", "cg", "c1", "g", "f"):
            if (nm + ".start") in m:
                cs.append((g(nm + ".start", 1), g(nm + ".end", g(nm + ".start", 1))))
        cs = [c for c in cs if isinstance(c[0], int) and isinstance(c[1], int) and c[0] <= c[1]]
        cs.sort()
        obs = [_native_fold_check(cs)] if cs else []
        obs += [_native_fold_check(b) for b in battery]
        return {"inputs": [cs] + battery, "expected": "ok", "observed": obs, "violates": any(o != "ok" for o in obs)}

    for shape in STATES:
        for criteria in ("default", "stub"):
            it = Interp()
            it.contracts[B.bins] = bins_contract
            default = criteria == "default"

            def run(ctx, shape=shape, default=default):
                fin = []

                def finalize(interp, args, kwargs):
                    fin.append((args[0], args[1]))
                    return ("finalized", args[0], args[1])
                it.contracts[I._finalize_merge] = finalize
                holder = install_state_hook(it, ctx, shape, sfeat, default, body=True)
                db = blank_db()
                db._autoincrements = IM.SymMap("cnt")
                calls = []
                ctx.stash.update(holder=holder, fin=fin, calls=calls, db=db)
                kw = {} if default else {"merge_criteria": [_crit_stub(ctx, calls)]}
                try:
                    list(it.call(I.FeatureDB.merge, [db, [sfeat("dummy")]], kw))
                except LoopExit as e:
                    env = e.env
                    return {"yields": list(env.vars.get("$yield", [])), "kind": e.payload, "cm": env.vars.get("current_merged"),
                            "kids": env.vars.get("feature_children"), "last_id": env.vars.get("last_id")}
                raise Undecided("loop hook not reached")
            base = "C16.fold.step[%s,%s]" % (shape, criteria)
            for p in U.explore(run, it, max_paths=4000):
                st = p.ctx.stash
                h = st["holder"]
                vars_ = {}
                for nm in ("c0", "cg", "c1", "g", "f", "m"):
                    vars_[nm + ".start"] = z3.Int(nm + ".start")
                    vars_[nm + ".end"] = z3.Int(nm + ".end")
                vars_["k"] = z3.Int("k")
                if p.kind != "return":
                    U.prove(base + ".noraise#p%d" % p.index, "the step raises nothing (got %r)" % (p.value,), p.pc, z3.BoolVal(False), vars_, replay=replay)
                    continue
                r = p.value
                f, cm0, kids0, members = h["f"], h["cm"], h["kids_obj"], h["members"]
                ys = r["yields"]
                cm1, kids1, lid1 = r["cm"], r["kids"], r["last_id"]
                # --- which transition was taken, structurally
                joined = isinstance(kids1, list) and any(x is f for x in kids1)
                # accept condition A of the pair (run so far, feature)
                if default:
                    if shape in ("S0",):
                        A = None
                    else:
                        A = z3.And(f.seqid.z3() == cm0.seqid.z3(), f.strand.z3() == cm0.strand.z3(), f.featuretype.z3() == cm0.featuretype.z3(),
                                   cm0.start.e <= f.start.e, f.start.e <= cm0.end.e + 1)
                else:
                    dec = [c for c in st["calls"] if c[1] is f and c[0] is not f]
                    A = dec[0][4] if len(dec) == 1 else None
                    if shape != "S0" and joined:
                        okcall = len(dec) == 1 and dec[0][0] is cm0 and dec[0][2] is kids0
                        U.prove(base + ".pair#p%d" % p.index, "the deciding call is criterion(current run's accumulator, feature, the run's member list)", [], z3.BoolVal(bool(okcall)), vars_, replay=replay)
                if shape == "S0":
                    # first feature (or first after self-rejected ones): it becomes the pending run of one, or - rejected on its own - is yielded as it is
                    if ys:
                        ok = len(ys) == 1 and ys[0][0] == "finalized" and ys[0][1] is f and ys[0][2] == () and cm1 is None and kids1 == [] and lid1 is None
                    else:
                        ok = cm1 is f and isinstance(kids1, list) and len(kids1) == 1 and kids1[0] is f and lid1 is None
                    U.prove(base + ".start#p%d" % p.index, "with nothing pending the feature opens a run of one (state S2), or - rejected by a criterion on the pair (itself, itself) - is yielded alone (state S0)", [], z3.BoolVal(bool(ok)), vars_, replay=replay)
                    if default:
                        U.prove(base + ".start_accepts#p%d" % p.index, "the default criteria accept every feature with start <= end as a run of its own", p.pc, z3.BoolVal(not ys), vars_, replay=replay)
                    continue
                if shape == "S1" and ys and not joined and cm1 is f and len(ys) == 1 and ys[0][1] is cm0 and ys[0][2] == ():
                    # the pending feature was rejected on its own: yielded alone, the new feature is pending (S1)
                    ok = kids1 == [] and lid1 is None
                    U.prove(base + ".self_rejected#p%d" % p.index, "a pending feature rejected on the pair (itself, itself) is yielded alone; the next feature becomes pending", [], z3.BoolVal(bool(ok)), vars_, replay=replay)
                    if default:
                        U.prove(base + ".self_accepts#p%d" % p.index, "the default criteria never reject a feature with start <= end on its own", p.pc, z3.BoolVal(False), vars_, replay=replay)
                    continue
                if A is None:
                    U.prove(base + ".decided#p%d" % p.index, "exactly one criterion call decides on the pair (run so far, feature)", [], z3.BoolVal(False), vars_, replay=replay)
                    continue
                # --- joins exactly when the criteria accept
                U.prove(base + ".joins_iff#p%d" % p.index, "the feature joins the current run exactly when every criterion accepts the pair (run so far, feature)", p.pc,
                        A == z3.BoolVal(joined), vars_, replay=replay)
                if not joined:
                    # break: the run so far is finalized with exactly its members, the feature is pending (S1)
                    ok = len(ys) == 1 and ys[0][0] == "finalized" and ys[0][1] is cm0 and (ys[0][2] is kids0 or (shape == "S1" and False)) and cm1 is f and kids1 == [] and kids1 is not kids0 and lid1 is None
                    if shape == "S1":
                        # the pending feature was accepted on its own first: its member list is [itself]
                        ok = len(ys) == 1 and ys[0][1] is cm0 and isinstance(ys[0][2], list) and len(ys[0][2]) == 1 and ys[0][2][0] is cm0 and cm1 is f and kids1 == [] and kids1 is not ys[0][2] and lid1 is None
                    same_members = shape == "S1" or list(kids0) == h["kids_before"]
                    U.prove(base + ".break#p%d" % p.index, "a rejected feature ends the run: _finalize_merge(accumulator, exactly the members so far) is yielded, the feature becomes pending with an empty member list of its own and no id",
                            [], z3.BoolVal(bool(ok and same_members)), vars_, replay=replay)
                    continue
                # join: nothing is yielded, the state is S3 over members + [f]
                exp_members = (h["kids_before"] if shape != "S1" else [cm0]) + [f]
                okk = not ys and isinstance(kids1, list) and len(kids1) == len(exp_members) and all(a is b for a, b in zip(kids1, exp_members))
                fresh = isinstance(cm1, F.Feature) and not any(cm1 is x for x in members + [f])
                if shape == "S3":
                    fresh = fresh and cm1 is cm0
                U.prove(base + ".join#p%d" % p.index, "a joining feature is appended to the member list (order kept, nothing else added or dropped), nothing is yielded, and the accumulator is an object of its own - the same one from the third member on", [],
                        z3.BoolVal(bool(okk and fresh)), vars_, replay=replay)
                if not fresh:
                    continue
                s0, e0 = cm0.start.e, cm0.end.e
                goal = [z3.BoolVal(isinstance(cm1.start, SInt) and isinstance(cm1.end, SInt))]
                if isinstance(cm1.start, SInt) and isinstance(cm1.end, SInt):
                    goal += [cm1.start.e == z3.If(f.start.e < s0, f.start.e, s0), cm1.end.e == z3.If(f.end.e > e0, f.end.e, e0)]
                U.prove(base + ".extent#p%d" % p.index, "after a join the accumulator spans min(start so far, feature.start) .. max(end so far, feature.end)", p.pc, z3.And(*goal), vars_, replay=replay)
                # id: non-empty, equals the ID attribute and last_id; from the third member on unchanged; first time '<featuretype>_<counter+1>'
                idg = [z3.BoolVal("ID" in cm1.attributes._d and len(cm1.attributes._d["ID"]) == 1)]
                if "ID" in cm1.attributes._d:
                    idg.append(_streq(cm1.id, cm1.attributes._d["ID"][0]))
                idg.append(z3.BoolVal(lid1 is not None))
                if lid1 is not None:
                    idg.append(_streq(cm1.id, lid1))
                if shape == "S3":
                    idg.append(_streq(cm1.id, h["last_id"]))
                else:
                    cnt = st["db"]._autoincrements
                    ft = cm0.featuretype
                    idg.append(_streq(cm1.id, SStr(list(ft.atoms) + [Lit("_"), IntLit(z3.Select(cnt.arr0, ft.z3()) + 1)])))
                    idg.append(z3.Select(cnt.arr, ft.z3()) == z3.Select(cnt.arr0, ft.z3()) + 1)
                U.prove(base + ".id#p%d" % p.index, "the accumulator's id equals its ID attribute and last_id; a new run gets '<featuretype>_<counter+1>' and advances that counter by one, a continued run keeps its id", p.pc,
                        z3.And(*idg), vars_, replay=replay)
                if default:
                    inv = z3.And(_streq(cm1.seqid, f.seqid), _streq(cm1.strand, f.strand), _streq(cm1.featuretype, f.featuretype),
                                 _streq(cm1.seqid, cm0.seqid), _streq(cm1.strand, cm0.strand), _streq(cm1.featuretype, cm0.featuretype))
                    U.prove(base + ".invariant_cols#p%d" % p.index, "default criteria: after a join the accumulator's seqid, strand and featuretype are still those of every member", p.pc, inv, vars_, replay=replay)
                # frame
                inputs = members + [f]
                bad = [w for w in p.ctx.writes if any(w[0] is x for x in inputs) or any(w[0] is x.attributes or w[0] is x.attributes._d for x in inputs)]
                U.prove(base + ".frame#p%d" % p.index, "no column or attribute of an input feature is written; no SQL statement is issued", [],
                        z3.BoolVal(not bad and not ghostdb.executes(p.ctx)), vars_, replay=replay)

    # ---- after the loop
    for shape in STATES:
        it = Interp()
        it.contracts[B.bins] = bins_contract

        def run(ctx, shape=shape):
            fin = []

            def finalize(interp, args, kwargs):
                fin.append((args[0], args[1]))
                return ("finalized", args[0], args[1])
            it.contracts[I._finalize_merge] = finalize
            holder = install_state_hook(it, ctx, shape, sfeat, True, body=False)
            db = blank_db()
            ctx.stash.update(holder=holder)
            return list(it.call(I.FeatureDB.merge, [db, [sfeat("dummy")]], {}))
        for p in U.explore(run, it):
            h = p.ctx.stash["holder"]
            base = "C16.fold.exit[%s]" % shape
            if p.kind != "return":
                U.prove(base + ".noraise#p%d" % p.index, "the code after the loop raises nothing (got %r)" % (p.value,), p.pc, z3.BoolVal(False), {}, replay=replay)
                continue
            ys = p.value
            if shape == "S0":
                ok = ys == []
            else:
                ok = len(ys) == 1 and ys[0][0] == "finalized" and ys[0][1] is h["cm"] and ys[0][2] is h["kids_obj"] and list(h["kids_obj"]) == h["kids_before"]
            U.prove(base + ".last_run#p%d" % p.index, "after the last feature the pending run is finalized with exactly its members and yielded (nothing when nothing is pending)", [], z3.BoolVal(bool(ok)), {}, replay=replay)

    # ---- lemmas over the step contract (pure arithmetic; z3, quantified over the integer point x / the later feature)
    ms, me, fs, fe, x, gs, ge = z3.Ints("m.start m.end f.start f.end x g.start g.end")
    covered = z3.Function("covered", z3.IntSort(), z3.BoolSort())       # x lies in some member's interval
    hyp_inv = [ms <= me, fs <= fe, z3.ForAll([x], z3.Implies(z3.And(ms <= x, x <= me), covered(x)))]
    ns, ne = z3.If(fs < ms, fs, ms), z3.If(fe > me, fe, me)
    accept = z3.And(ms <= fs, fs <= me + 1)
    y = z3.Int("y")
    lv = {"m.start": ms, "m.end": me, "f.start": fs, "f.end": fe, "g.start": gs, "g.end": ge}
    U.prove("C16.fold.lemma.contiguous", "if every position of start..end of the accumulator is covered by a member or adjacent-closed (invariant) and the feature is accepted by the default criteria, "
            "every position of the new extent is covered by a member or by the feature: a run's members form one block of overlapping or adjacent intervals", hyp_inv + [accept, ns <= y, y <= ne],
            z3.Or(covered(y), z3.And(fs <= y, y <= fe)), lv, replay=replay)
    U.prove("C16.fold.lemma.maximal", "start-ordered input: a feature rejected by the overlap criterion (start > end so far + 1) and every later feature (start >= its start) neither overlaps nor adjoins the closed run, "
            "and a later feature that does overlap or adjoin the run so far is never rejected: runs are maximal", [ms <= me, fs <= fe, gs <= ge, ms <= fs, z3.Not(accept), gs >= fs],
            z3.And(gs > me + 1, fs > me + 1), lv, replay=replay)
    U.prove("C16.fold.lemma.sorted_lower", "start-ordered input: the lower half of the overlap criterion (accumulator.start <= feature.start) always holds, so acceptance is exactly feature.start <= max end so far + 1",
            [ms <= me, fs <= fe, ms <= fs], accept == (fs <= me + 1), lv, replay=replay)
    # side condition of the fold rule: the loop carries exactly the state the invariant speaks about
    require_loop_state(I.FeatureDB.merge, {0: ("current_merged", "feature_children", "last_id")}, "the fold rule (C16.fold.*)")


UNITS = [("merge_fold", unit_merge_fold)]
