"""C15 - interfeatures, introns and splice sites have exact gap geometry."""
import itertools
import z3

import gffutils
import gffutils.feature as F
import gffutils.interface as I
import gffutils.helpers as H
import gffutils.bins as B
from gffutils.attributes import Attributes

from pyvc.core import SInt, SBool, SStr, SSeq, Val, Lit, IntLit, Undecided, Ctx, mkstr
from pyvc.interp import Interp, LoopExit
from pyvc import ghostdb
from pyvc.harness import Indexed, install_loop_body_hook
from contracts.common import blank_feature, bins_contract
from contracts import spec_bins as SB
from contracts.qharness import blank_db, native_db
from props.C04 import _streq

LEVEL = "proof"
EXPLANATION = ("FeatureDB.interfeatures: the loop body is proved by the fold rule - it is executed once from an arbitrary loop state "
               "satisfying the invariant (interfeature.seqid == last_feature.seqid, source 'gffutils_derived', nfeatures == 1) for an "
               "arbitrary next feature, and shown to yield exactly the gap feature of the statement (previous.end+1 .. next.start-1 when "
               "at least one base lies between, nothing for touching/overlapping pairs or a change of seqid), typed new_featuretype or "
               "inter_A_B, stranded like both neighbours or '.', attributes = merge_attributes(prev, next) updated with update_attributes, "
               "several ID values joined by '-', bin = bins(start, end); the invariant is re-established; no input object is written and "
               "no SQL is issued.  Hence the result holds for feature lists of every length.  create_introns / create_splice_sites are "
               "proved per path against the contracts of features_of_type/children/interfeatures (argument plumbing, site coordinates "
               "[start, start+1] / [end-1, end], labels by side and strand, ID prefix).  merge_attributes itself: C17.")
TRUSTED = ["T1 incl. the fold rule for the loop body"]
ASSUMPTIONS = ["helpers.merge_attributes satisfies its C17 contract", "bins.bins satisfies its C12 contract", "children(order_by='start') yields exons ascending (C02/C11)"]
PRECONDITIONS = ["features carry integer coordinates", "exons carry an ID attribute (create_splice_sites)"]
FUNCTIONS = ["gffutils.helpers:make_query", "gffutils.interface:FeatureDB.interfeatures", "gffutils.interface:FeatureDB.create_introns", "gffutils.interface:FeatureDB.create_splice_sites"]

NOTAB = frozenset("\t\n")


def sfeat(name, ids=1):
    a = object.__new__(Attributes)
    a._d = {"ID": [SStr([Val(z3.String("%s.ID%d" % (name, i)), nonempty=True)]) for i in range(ids)]} if ids else {}
    return blank_feature(seqid=SStr([Val(z3.String(name + ".seqid"), nonempty=True)]), source=SStr([Val(z3.String(name + ".source"))]),
                         featuretype=SStr([Val(z3.String(name + ".featuretype"), nonempty=True)]), strand=SStr([Val(z3.String(name + ".strand"))]),
                         frame=SStr([Val(z3.String(name + ".frame"))]), score=SStr([Val(z3.String(name + ".score"))]),
                         start=SInt(z3.Int(name + ".start")), end=SInt(z3.Int(name + ".end")), attributes=a, id=SStr([Val(z3.String(name + ".id"))]))


def native_gaps(feats, new_featuretype=None):
    out = []
    for a, b in zip(feats, feats[1:]):
        if a.seqid != b.seqid or a.end + 1 > b.start - 1:
            continue
        out.append((a.seqid, a.end + 1, b.start - 1, new_featuretype or "inter_%s_%s" % (a.featuretype, b.featuretype), a.strand if a.strand == b.strand else "."))
    return out


def battery_replay(m=None):
    """native battery around the statement: strand/seqid/geometry combinations on 2-4 features"""
    db = native_db([])
    bad = None
    for strands in itertools.product("+-", repeat=4):
        for layout in ([(10, 20), (31, 40), (51, 60), (71, 80)], [(10, 20), (21, 40), (39, 60), (62, 80)]):
            for seqs in (["c", "c", "c", "c"], ["c", "c", "d", "d"]):
                for nft in (None, "gap"):
                    feats = [F.Feature(seqid=sq, featuretype="t%d" % i, start=s, end=e, strand=st, attributes={"ID": ["x%d" % i], "n": [str(i)]})
                             for i, ((s, e), st, sq) in enumerate(zip(layout, strands, seqs))]
                    before = [str(f) for f in feats]
                    got = [(g.seqid, g.start, g.end, g.featuretype, g.strand) for g in db.interfeatures(feats, new_featuretype=nft)]
                    exp = native_gaps(feats, nft)
                    if got != exp or [str(f) for f in feats] != before:
                        bad = {"strands": "".join(strands), "layout": layout, "seqids": seqs, "expected": exp, "observed": got}
                        break
    return {"inputs": bad or "battery of 2^4 strand x 2 layouts x 2 seqid patterns x 2 types", "expected": bad and bad["expected"], "observed": bad and bad["observed"], "violates": bad is not None}


def _establish(U):
    """establishment: the first feature initialises the loop state.  The ROLES of the loop-carried locals are read
    off the state after that first iteration (not their names, so that renaming or reordering locals is harmless):
    the dict that becomes the next interfeature, the names bound to the feature just seen, integer counters."""
    it = Interp()
    it.contracts[B.bins] = bins_contract
    it.contracts[H._jsonify] = lambda interp, a, k: "<json>"

    def run0(ctx):
        f = sfeat("f")
        ctx.stash["f"] = f

        def setup(env, c, iterable):
            return Indexed(0, f)
        install_loop_body_hook(it, "interfeatures", 0, setup)
        try:
            list(it.call(I.FeatureDB.interfeatures, [blank_db(), [f]], {}))
        except LoopExit as e:
            return {"yields": list(e.env.vars.get("$yield", [])), "vars": dict(e.env.vars)}
        raise Undecided("interfeatures: the first feature does not reach the body of the first loop (loop structure not recognised)")
    roles = None
    for p in U.explore(run0, it):
        ok = p.kind == "return"
        goal = z3.BoolVal(False)
        if not ok and not battery_replay({}).get("violates"):
            # the harness binds to the loop structure (first loop, item = (index, feature) or feature); an exception here
            # with a native battery that still holds means the structure was not recognised, not that the property fails
            raise Undecided("interfeatures: executing the first loop iteration on the first feature raised %r (loop structure not recognised)" % (p.value,))
        if ok:
            r, f = p.value, p.ctx.stash["f"]
            vs = r["vars"]
            inter = sorted(k for k, v in vs.items() if isinstance(v, dict) and v.get("source") == "gffutils_derived" and "seqid" in v)
            lastn = sorted(k for k, v in vs.items() if v is f and not k.startswith("$"))
            counters = sorted(k for k, v in vs.items() if isinstance(v, int) and not isinstance(v, bool) and v == 1 and not k.startswith("$"))
            if len(inter) != 1 or not lastn:
                raise Undecided("interfeatures: loop state after the first feature not recognised (dict candidates %r, previous-feature candidates %r)" % (inter, lastn))
            this = {"inter": inter[0], "last": lastn, "counters": counters}
            if roles is not None and roles != this:
                raise Undecided("interfeatures: loop state differs between paths of the first iteration")
            roles = this
            goal = z3.And(z3.BoolVal(r["yields"] == []), _streq(vs[inter[0]]["seqid"], f.seqid))
        U.prove("C15.inter.init#p%d" % p.index, "the first feature yields nothing and establishes the invariant (a pending interfeature on its seqid with source 'gffutils_derived'; it is the previous feature)", p.pc, goal, {}, replay=battery_replay)
    if roles is None:
        raise Undecided("interfeatures: establishment did not return")
    return roles


def _replay_update_frame(m):
    """merge_attributes on / off x an update_attributes dict with one / several ID values: the dict is unchanged afterwards and
    editing one yielded feature changes neither the dict nor the other features"""
    import gffutils
    mk = lambda i, a, b: F.Feature(seqid="c", source="s", featuretype="exon", start=a, end=b, strand="+", attributes={"ID": ["e%d" % i]})
    db = gffutils.create_db([mk(1, 1, 10), mk(2, 20, 30), mk(3, 40, 50)], ":memory:")
    last = None
    for ma in (False, True):
        for upd in ({"Note": ["n"]}, {"ID": ["a", "b"], "Note": ["n"]}):
            before = {k: list(v) for k, v in upd.items()}
            out = list(db.interfeatures(db.all_features(order_by="start"), merge_attributes=ma, update_attributes=upd))
            after_call = {k: list(v) for k, v in upd.items()}
            out[0].attributes["Note"] = ["edited"]
            out[0].attributes["mine"] = ["x"]
            obs = {"update_attributes after the call": after_call, "after editing the first interfeature": {k: list(v) for k, v in upd.items()},
                   "second interfeature Note": list(out[1].attributes["Note"]), "second has key 'mine'": "mine" in out[1].attributes}
            exp = {"update_attributes after the call": before, "after editing the first interfeature": before, "second interfeature Note": ["n"], "second has key 'mine'": False}
            last = {"inputs": {"merge_attributes": ma, "update_attributes": before}, "expected": exp, "observed": obs, "violates": obs != exp}
            if last["violates"]:
                return last
    return last


def unit_body(U):
    """fold rule on the loop body of interfeatures"""
    roles = _establish(U)
    for nft, ma, upd, ids in itertools.product(("none", "given"), (True, False), (None, {"extra": ["1"]}), (0, 1, 2)):
        if not U.thorough and ((upd is not None and ids != 1) or (not ma and ids != 1)):
            continue
        it = Interp()
        it.contracts[B.bins] = bins_contract
        it.contracts[H._jsonify] = lambda interp, a, k: "<json>"
        merged_ids = []

        def run(ctx, nft=nft, ma=ma, upd=upd, ids=ids):
            upd = None if upd is None else {k: list(v) for k, v in upd.items()}       # the caller's own dict, fresh for every path
            ctx.stash["upd"] = upd
            ctx.stash["upd_before"] = None if upd is None else {k: (v, list(v)) for k, v in upd.items()}
            last, f = sfeat("last"), sfeat("f")
            merged = {"Name": [SStr([Val(z3.String("m.Name"))])]}
            if ids:
                merged["ID"] = [SStr([Val(z3.String("m.ID%d" % i), nonempty=True)]) for i in range(ids)]
            calls = []

            def merge_attributes(interp, args, kwargs):
                calls.append((args, kwargs))
                return dict((k, list(v)) for k, v in merged.items())
            it.contracts[H.merge_attributes] = merge_attributes
            state = {}

            def setup(env, c, iterable):
                # arbitrary loop state satisfying the invariant
                inter = {"id": SStr([Val(z3.String("st.id"))]), "seqid": last.seqid, "source": "gffutils_derived",
                         "featuretype": SStr([Val(z3.String("st.featuretype"))]), "start": SInt(z3.Int("st.start")), "end": SInt(z3.Int("st.end")),
                         "score": SStr([Val(z3.String("st.score"))]), "strand": SStr([Val(z3.String("st.strand"))]), "frame": SStr([Val(z3.String("st.frame"))]),
                         "attributes": {"stale": ["x"]}, "bin": SInt(z3.Int("st.bin"))}
                env.store(roles["inter"], inter)
                for nm in roles["last"]:
                    env.store(nm, last)              # (the loop target among them is re-bound to the new item right after)
                for nm in roles["counters"]:
                    env.store(nm, 1)
                i = z3.Int("i")
                c.assume(i >= 1)
                state["inter"] = inter
                return Indexed(SInt(i), f)
            install_loop_body_hook(it, "interfeatures", 0, setup)
            db = blank_db()
            ctx.stash.update(last=last, f=f, merged=merged, calls=calls, state=state)
            try:
                list(it.call(I.FeatureDB.interfeatures, [db, [last, f]], {"new_featuretype": None if nft == "none" else "intron", "merge_attributes": ma, "update_attributes": upd}))
            except LoopExit as e:
                env = e.env
                return {"yields": list(env.vars.get("$yield", [])), "kind": e.payload, "last": [env.vars.get(nm) for nm in roles["last"]],
                        "counters": [env.vars.get(nm) for nm in roles["counters"]], "inter": env.vars.get(roles["inter"])}
            raise Undecided("loop hook not reached")
        base = "C15.inter.step[type=%s,merge=%s,update=%s,ids=%d]" % (nft, ma, "yes" if upd else "no", ids)
        for p in U.explore(run, it):
            st = p.ctx.stash
            last, f = st["last"], st["f"]
            vars_ = {k: z3.Int(k) for k in ("last.start", "last.end", "f.start", "f.end")}
            if p.kind != "return":
                U.prove(base + ".noraise#p%d" % p.index, "the step raises nothing (got %r)" % (p.value,), p.pc, z3.BoolVal(False), vars_, replay=battery_replay)
                continue
            r = p.value
            ys = r["yields"]
            same = last.seqid.z3() == f.seqid.z3()
            room = last.end.e + 1 <= f.start.e - 1
            should = z3.And(same, room)
            U.prove(base + ".count#p%d" % p.index, "exactly one feature is yielded iff same seqid and previous.end + 1 <= next.start - 1; none otherwise", p.pc,
                    z3.And(z3.BoolVal(len(ys) in (0, 1)), should == z3.BoolVal(len(ys) == 1)), vars_, replay=battery_replay)
            if len(ys) == 1:
                g = ys[0]
                exp_ft = "intron" if nft == "given" else SStr(list(SStr.of("inter_").atoms) + list(last.featuretype.atoms) + [Lit("_")] + list(f.featuretype.atoms))
                strand_ok = z3.If(last.strand.z3() == f.strand.z3(), _streq(g.strand, f.strand), _streq(g.strand, "."))
                goal = [g.start.e == last.end.e + 1, g.end.e == f.start.e - 1, _streq(g.featuretype, exp_ft), strand_ok, _streq(g.seqid, last.seqid),
                        _streq(g.source, "gffutils_derived"), z3.BoolVal(isinstance(g.bin, SInt)) if not isinstance(g.bin, SInt) else g.bin.e == SB.bin1(last.end.e + 1, f.start.e - 1, "gff")]
                U.prove(base + ".geometry#p%d" % p.index, "the gap spans previous.end+1 .. next.start-1 on the common seqid, typed new_featuretype or inter_A_B, stranded like both or '.', bin = bins(start,end)",
                        p.pc, z3.And(*goal), vars_, replay=battery_replay)
                attrs = g.attributes
                d = attrs._d if isinstance(attrs, Attributes) else attrs
                if ma:
                    okcall = len(st["calls"]) == 1 and st["calls"][0][0][0] is last.attributes and st["calls"][0][0][1] is f.attributes and st["calls"][0][1].get("numeric_sort") is False
                    keys = set(st["merged"]) | (set(upd) if upd else set())
                    okd = isinstance(d, dict) and set(d) == keys and d.get("Name") == st["merged"]["Name"] and (not upd or d.get("extra") == ["1"])
                    if ids == 2:
                        want = SStr(list(st["merged"]["ID"][0].atoms) + [Lit("-")] + list(st["merged"]["ID"][1].atoms))
                        okid = z3.And(z3.BoolVal(isinstance(d.get("ID"), list) and len(d["ID"]) == 1), _streq(d["ID"][0], want) if isinstance(d.get("ID"), list) and d["ID"] else z3.BoolVal(False))
                    elif ids == 1:
                        okid = z3.BoolVal(d.get("ID") == st["merged"]["ID"])
                    else:
                        okid = z3.BoolVal("ID" not in d)
                    U.prove(base + ".attributes#p%d" % p.index, "attributes == merge_attributes(previous.attributes, next.attributes, numeric_sort) updated with update_attributes; several ID values joined by '-'",
                            p.pc, z3.And(z3.BoolVal(bool(okcall and okd)), okid), vars_, replay=battery_replay)
                else:
                    okd = (d == (upd or {})) and not st["calls"]
                    U.prove(base + ".attributes#p%d" % p.index, "merge_attributes=False ==> attributes are just update_attributes (or empty)", [], z3.BoolVal(bool(okd)), vars_, replay=battery_replay)
            # invariant re-established
            inter = r["inter"]
            inv = z3.And(z3.BoolVal(all(x is f for x in r["last"]) and all(isinstance(c, int) and c == 1 for c in r["counters"]) and isinstance(inter, dict) and inter.get("source") == "gffutils_derived"),
                         _streq(inter["seqid"], f.seqid) if isinstance(inter, dict) else z3.BoolVal(False))
            U.prove(base + ".invariant#p%d" % p.index, "after the step: the previous-feature variable is the new feature, counters are back to 1, the pending interfeature is on its seqid with source 'gffutils_derived'", p.pc, inv, vars_, replay=battery_replay)
            # frame
            bad = [w for w in p.ctx.writes if w[0] is last or w[0] is f or w[0] is last.attributes or w[0] is f.attributes or w[0] is last.attributes._d or w[0] is f.attributes._d]
            U.prove(base + ".frame#p%d" % p.index, "no input feature (or its attributes) is written; no SQL statement is issued", [], z3.BoolVal(not bad and not ghostdb.executes(p.ctx)), vars_, replay=battery_replay)
            u, ub = st.get("upd"), st.get("upd_before")
            if u is not None:
                # the caller's update_attributes dict is an INPUT: same keys, the same value lists with the same content afterwards,
                # and no yielded feature uses that very dict as its attribute mapping (or every later edit of one would show in all)
                same_u = list(u.keys()) == list(ub.keys()) and all(u[k] is ub[k][0] and list(u[k]) == ub[k][1] for k in ub)
                shared = [g for g in ys if g.attributes is u or getattr(g.attributes, "_d", None) is u]
                U.prove(base + ".update_attributes_frame#p%d" % p.index, "update_attributes is left as it was given and is not itself the attribute mapping of a yielded feature", [],
                        z3.BoolVal(bool(same_u and not shared)), vars_, replay=_replay_update_frame)
    # side condition of the fold rule: the loop carries no state besides the locals whose roles were established above
    from pyvc.harness import require_loop_state
    require_loop_state(I.FeatureDB.interfeatures, {0: tuple([roles["inter"]] + list(roles["last"]) + list(roles["counters"]))}, "the fold rule (C15.inter.step)")


def unit_introns(U):
    it = Interp()
    for gp, pf in (("gene", None), (None, "mRNA"), ("gene", "mRNA"), (None, None)):
        def run(ctx, gp=gp, pf=pf):
            gene, tx, exons, intron = blank_feature(id="g"), blank_feature(id="t"), object(), blank_feature(id="i")
            log = []
            it.contracts[I.FeatureDB.features_of_type] = lambda interp, a, k: (log.append(("features_of_type", a[1:], k)), iter([gene] if a[1] == "gene" else [tx]))[1]
            it.contracts[I.FeatureDB.children] = lambda interp, a, k: (log.append(("children", a[1:], k)), iter([tx]) if k.get("featuretype") is None else exons)[1]
            it.contracts[I.FeatureDB.interfeatures] = lambda interp, a, k: (log.append(("interfeatures", a[1:], k)), iter([intron]))[1]
            ctx.stash.update(log=log, gene=gene, tx=tx, exons=exons, intron=intron)
            return list(it.call(I.FeatureDB.create_introns, [blank_db()], {"grandparent_featuretype": gp, "parent_featuretype": pf, "numeric_sort": True}))
        for p in U.explore(run, it):
            st = p.ctx.stash
            if (gp and pf) or (gp is None and pf is None):
                U.prove("C15.introns.args[%s,%s]#p%d" % (gp, pf, p.index), "both or neither of grandparent/parent featuretype ==> ValueError", [],
                        z3.BoolVal(p.kind == "raise" and isinstance(p.value, ValueError)), {})
                continue
            log = st["log"]
            ok = p.kind == "return" and p.value == [st["intron"]]
            ch = [l for l in log if l[0] == "children" and l[2].get("featuretype") is not None]
            inter = [l for l in log if l[0] == "interfeatures"]
            ok = ok and len(ch) == 1 and ch[0][1][0] is st["tx"] and ch[0][2] == {"level": 1, "featuretype": "exon", "order_by": "start"}
            ok = ok and len(inter) == 1 and inter[0][1][0] is st["exons"] and inter[0][2].get("new_featuretype") == "intron" and inter[0][2].get("merge_attributes") is True and inter[0][2].get("numeric_sort") is True
            if gp:
                ok = ok and log[0] == ("features_of_type", ["gene"], {}) and log[1][0] == "children" and log[1][1][0] is st["gene"] and log[1][2] == {"level": 1}
            else:
                ok = ok and log[0] == ("features_of_type", ["mRNA"], {})
            U.prove("C15.introns[%s]#p%d" % ("grandparent" if gp else "parent", p.index),
                    "create_introns yields interfeatures(children(transcript, level=1, featuretype=exon_featuretype, order_by='start'), new_featuretype, ...) for every selected transcript",
                    [], z3.BoolVal(bool(ok)), {}, replay=lambda m: _replay_introns())


def _replay_introns():
    """native replay of create_introns / create_splice_sites: exon layouts with gaps of one, two and many bases,
    touching exons, both strands; expectation computed from the statement"""
    last = None
    for strand in ("-", "+", "."):
        for exons in ([(60, 100), (1, 10), (30, 40)], [(1, 10), (12, 20), (23, 30), (60, 100)], [(5, 9), (10, 14), (16, 16), (18, 30)]):
            last = _replay_introns1(strand, exons)
            if last["violates"]:
                return last
    return last


def _replay_introns1(strand, exons):
    feats, rels = [], []
    def mk(i, t, s, e, st="+"):
        f = F.Feature(seqid="c", featuretype=t, start=s, end=e, strand=st, attributes={"ID": [i]})
        f.id = i
        feats.append(f)
        return f
    mk("g", "gene", 1, 100)
    mk("t", "mRNA", 1, 100, strand)
    for j, (s, e) in enumerate(exons):
        mk("e%d" % j, "exon", s, e, strand)
        rels.append(("t", "e%d" % j, 1))
    rels.append(("g", "t", 1))
    db = native_db(feats, rels)
    try:
        introns = [(i.start, i.end, i.featuretype, i.strand) for i in db.create_introns()]
        sites = sorted((s.start, s.end, s.featuretype) for s in db.create_splice_sites())
    except Exception as ex:
        return {"inputs": {"strand": strand, "exons": exons}, "observed": "raised %r" % (ex,), "violates": True}
    srt = sorted(exons)
    exp_i = [(a[1] + 1, b[0] - 1, "intron", strand) for a, b in zip(srt, srt[1:]) if b[0] - a[1] > 1]
    left = {"+": "five_prime_cis_splice_site", "-": "three_prime_cis_splice_site"}.get(strand, "splice_site")
    right = {"+": "three_prime_cis_splice_site", "-": "five_prime_cis_splice_site"}.get(strand, "splice_site")
    exp_s = sorted([(s, s + 1, left) for (s, e, _, _) in exp_i] + [(e - 1, e, right) for (s, e, _, _) in exp_i])
    return {"inputs": {"strand": strand, "exons": exons}, "expected": [exp_i, exp_s], "observed": [introns, sites], "violates": introns != exp_i or sites != exp_s}


def unit_splice(U):
    it = Interp()
    strand = z3.String("t.strand")

    def run(ctx):
        tx = blank_feature(id="t", strand=SStr([Val(strand)]))
        s, e = z3.Int("i.start"), z3.Int("i.end")
        log = []
        made = []

        def inter(interp, a, k):
            a_ = object.__new__(Attributes)
            idv = SStr([Val(z3.String("i.ID%d" % len(made)), nonempty=True)])
            a_._d = {"ID": [idv]}
            g = blank_feature(start=SInt(s), end=SInt(e), attributes=a_)
            made.append((g, idv, k))
            return iter([g])
        it.contracts[I.FeatureDB.features_of_type] = lambda interp, a, k: iter([tx])
        it.contracts[I.FeatureDB.children] = lambda interp, a, k: (log.append(k), iter([]))[1]
        it.contracts[I.FeatureDB.interfeatures] = inter
        ctx.stash.update(made=made, s=s, e=e, log=log)
        return list(it.call(I.FeatureDB.create_splice_sites, [blank_db()], {"grandparent_featuretype": None, "parent_featuretype": "mRNA"}))
    for p in U.explore(run, it):
        st = p.ctx.stash
        ok = p.kind == "return" and len(p.value) == 2 and len(st["made"]) == 2
        goal = z3.BoolVal(False)
        if ok:
            s, e = st["s"], st["e"]
            (l, lid, lk), (r, rid, rk) = st["made"]
            plus, minus = strand == z3.StringVal("+"), strand == z3.StringVal("-")
            lab_l = z3.If(plus, z3.StringVal("five_prime_cis_splice_site"), z3.If(minus, z3.StringVal("three_prime_cis_splice_site"), z3.StringVal("splice_site")))
            lab_r = z3.If(plus, z3.StringVal("three_prime_cis_splice_site"), z3.If(minus, z3.StringVal("five_prime_cis_splice_site"), z3.StringVal("splice_site")))
            goal = z3.And(z3.BoolVal(p.value[0] is l and p.value[1] is r),
                          l.start.e == s, l.end.e == s + 1, r.start.e == e - 1, r.end.e == e,
                          SStr.of(lk["new_featuretype"]).z3() == lab_l if not isinstance(lk["new_featuretype"], str) else z3.StringVal(lk["new_featuretype"]) == lab_l,
                          z3.StringVal(rk["new_featuretype"]) == lab_r if isinstance(rk["new_featuretype"], str) else SStr.of(rk["new_featuretype"]).z3() == lab_r,
                          SStr.of(l.attributes._d["ID"][0]).z3() == z3.Concat(lab_l, z3.StringVal("_"), lid.z3()),
                          SStr.of(r.attributes._d["ID"][0]).z3() == z3.Concat(lab_r, z3.StringVal("_"), rid.z3()),
                          z3.BoolVal(all(k == {"level": 1, "featuretype": "exon", "order_by": "start"} for k in st["log"])))
        U.prove("C15.splice#p%d" % p.index, "left site [start, start+1], right site [end-1, end] of each intron; five/three-prime by side and transcript strand (else splice_site); ID = label + '_' + ID",
                p.pc, goal, {"t.strand": strand}, replay=lambda m: _replay_introns())


def unit_bounded_numeric(U):
    """bounded: the attribute union of interfeatures / create_introns under numeric_sort=True, with values that are
    numerically equal but textually different ('1' / '1.0' / '01'), numeric vs text order, and a non-numeric fallback"""
    fails, cases = [], 0
    pools = [(["1"], ["1.0"]), (["10", "9"], ["9.0"]), (["05", "5"], ["5"]), (["2", "x"], ["10"]), (["0.5"], ["0.50", "7e-1"]), (["3"], ["3"])]
    for numeric in (True, False):
        for a, b in pools:
            cases += 1
            f1 = F.Feature(seqid="c", featuretype="exon", start=1, end=10, strand="+", attributes={"ID": ["e1"], "n": list(a)})
            f2 = F.Feature(seqid="c", featuretype="exon", start=20, end=30, strand="+", attributes={"ID": ["e2"], "n": list(b)})
            db = native_db([f1, f2], [])
            try:
                got = [list(g.attributes["n"]) for g in db.interfeatures([f1, f2], numeric_sort=numeric)]
            except Exception as ex:
                fails.append({"case": {"numeric_sort": numeric, "values": [a, b]}, "expected": "no exception", "observed": repr(ex)})
                continue
            union = set(a) | set(b)
            allnum = True
            try:
                [float(v) for v in union]
            except ValueError:
                allnum = False
            exp = sorted(union, key=lambda v: (float(v), v)) if (numeric and allnum) else sorted(union)
            if got != [exp]:
                fails.append({"case": {"numeric_sort": numeric, "values": [a, b]}, "expected": [exp], "observed": got})
    U.bounded_result("C15.bounded.numeric_union", "interfeature attributes are the duplicate-free union of both neighbours' values per key (numeric order under numeric_sort when all are numbers; no value lost to a numeric tie)",
                     "%d value pools x numeric_sort on/off" % len(pools), cases, fails, distinct=cases)


def unit_bounded_after_delete(U):
    """bounded history: create_introns / create_splice_sites, then delete() one exon (by id / by Feature / through a
    generator), then the same calls again on the same FeatureDB object: the gaps follow the exons that are stored NOW"""
    fails, cases = [], 0
    for how in ("id", "feature", "generator"):
        for strand in ("+", "-"):
            cases += 1
            text = "c\ts\tgene\t101\t900\t.\t%s\t.\tID=g\nc\ts\tmRNA\t101\t900\t.\t%s\t.\tID=t;Parent=g\n" % (strand, strand)
            exons = [(101, 200), (400, 500), (800, 900)]
            for i, (a, b) in enumerate(exons):
                text += "c\ts\texon\t%d\t%d\t.\t%s\t.\tID=e%d;Parent=t\n" % (a, b, strand, i)
            try:
                db = gffutils.create_db(text, ":memory:", from_string=True)
                first = sorted((i.start, i.end) for i in db.create_introns())
                list(db.create_splice_sites())
                victim = "e1" if how == "id" else (db["e1"] if how == "feature" else (f for f in [db["e1"]]))
                db.delete(victim, make_backup=False)
                second = sorted((i.start, i.end) for i in db.create_introns())
                sites = sorted((s.start, s.end) for s in db.create_splice_sites())
                exp1, exp2 = [(201, 399), (501, 799)], [(201, 799)]
                exps = sorted([(201, 202), (798, 799)])
                if first != exp1 or second != exp2 or sites != exps:
                    fails.append({"case": {"delete": how, "strand": strand}, "expected": {"introns before": exp1, "introns after delete(e1)": exp2, "sites after": exps},
                                  "observed": {"introns before": first, "introns after delete(e1)": second, "sites after": sites}})
            except Exception as ex:
                fails.append({"case": {"delete": how, "strand": strand}, "expected": "no exception", "observed": repr(ex)})
    U.bounded_result("C15.bounded.after_delete", "create_introns / create_splice_sites after a delete() on the same object use the exons stored now",
                     "3 forms of delete x 2 strands, one transcript with 3 exons", cases, fails, distinct=cases)


def unit_bounded_switch(U):
    """Bounded: the same gaps under the module switch constants.always_return_list = False (single values are VIEWED as
    strings there; what is computed must not change): neighbours sharing one single ID, several IDs, introns and splice sites;
    and update_attributes values that are not lists come back as they were given (default setting)."""
    import gffutils
    from gffutils import constants as K
    fails, cases = [], 0
    mk = lambda i, a, b, ft="CDS", **att: F.Feature(seqid="c", source="s", featuretype=ft, start=a, end=b, strand="+", attributes=dict({"ID": [i]}, **{k: list(v) for k, v in att.items()}))
    old = K.always_return_list
    try:
        for switch in (True, False):
          try:
              K.always_return_list = switch
              # (1) a multi-part CDS: every segment carries the same single ID
              db = gffutils.create_db([mk("t", 1, 100, ft="mRNA"), mk("cds1", 1, 10, Parent=["t"]), mk("cds1", 21, 30, Parent=["t"]), mk("cds1", 41, 50, Parent=["t"])], ":memory:", merge_strategy="create_unique")
              segs = [F.Feature(seqid="c", source="s", featuretype="CDS", start=a, end=b, strand="+", attributes={"ID": ["cds1"]}) for a, b in ((1, 10), (21, 30), (41, 50))]
              got = [(g.start, g.end, list(g.attributes["ID"]) if isinstance(g.attributes["ID"], list) else [g.attributes["ID"]]) for g in db.interfeatures(segs)]
              cases += 1
              if got != [(11, 20, ["cds1"]), (31, 40, ["cds1"])]:
                  fails.append({"case": {"always_return_list": switch, "features": "three CDS segments, all ID=cds1"}, "expected": [(11, 20, ["cds1"]), (31, 40, ["cds1"])], "observed": got})
              # (2) different IDs are joined by '-'
              two = [F.Feature(seqid="c", source="s", featuretype="exon", start=a, end=b, strand="+", attributes={"ID": [i]}) for i, a, b in (("e1", 1, 10), ("e2", 21, 30))]
              got = [g.attributes["ID"] for g in db.interfeatures(two)]
              cases += 1
              if [x if isinstance(x, list) else [x] for x in got] != [["e1-e2"]]:
                  fails.append({"case": {"always_return_list": switch, "features": "exons e1, e2"}, "expected": [["e1-e2"]], "observed": got})
              # (3) introns and their splice sites from a stored transcript
              db2 = gffutils.create_db([mk("g", 1, 100, ft="gene"), mk("t", 1, 100, ft="mRNA", Parent=["g"]), mk("x1", 1, 10, ft="exon", Parent=["t"]), mk("x2", 21, 30, ft="exon", Parent=["t"])], ":memory:")
              introns = list(db2.create_introns())
              sites = list(db2.create_splice_sites())
              obs = [[(i.start, i.end) for i in introns], sorted((s.start, s.end, s.featuretype) for s in sites)]
              exp = [[(11, 20)], [(11, 12, "five_prime_cis_splice_site"), (19, 20, "three_prime_cis_splice_site")]]
              ids = [x if isinstance(x, str) else x[0] for x in (s.attributes["ID"] for s in sites)]
              cases += 1
              if obs != exp or len(set(ids)) != 2 or any(len(i) < 8 for i in ids):
                  fails.append({"case": {"always_return_list": switch, "features": "gene, mRNA, exons 1-10 and 21-30"}, "expected": exp + ["two distinct splice site ids built from the intron's full id"], "observed": obs + [ids]})
          except Exception as e:
            cases += 1
            fails.append({"case": {"always_return_list": switch}, "expected": "no exception", "observed": repr(e)})
        K.always_return_list = old
        # (4) update_attributes values are taken as given
        for upd in ({"Note": "derived"}, {"Note": ["derived"]}, {"Note": ("a", "b")}):
            g = list(db.interfeatures(two, update_attributes=dict(upd)))[0]
            cases += 1
            if g.attributes["Note"] != upd["Note"]:
                fails.append({"case": {"update_attributes": upd}, "expected": upd["Note"], "observed": g.attributes["Note"]})
    finally:
        K.always_return_list = old
    U.bounded_result("C15.bounded.switch", "gap features, their joined IDs, introns and splice sites are the same with constants.always_return_list False; update_attributes values are kept as given",
                     "3 feature sets x both settings of the switch; 3 update_attributes value shapes (str, list, tuple)", cases, fails)


def unit_bounded_interleaved(U):
    """Bounded: create_introns / create_splice_sites consumed LAZILY while other queries run on the same FeatureDB (per yielded
    intron a children() query with the very arguments the generator uses; two generators walked in lock-step) yield what
    they yield when consumed at once"""
    import gffutils
    fails, cases = [], 0
    mk = lambda i, ft, a, b, par=None: F.Feature(seqid="c", source="s", featuretype=ft, start=a, end=b, strand="+", attributes=dict({"ID": [i]}, **({"Parent": par} if par else {})))
    feats = [mk("g", "gene", 1, 1000)]
    for t in range(2):
        feats.append(mk("t%d" % t, "mRNA", 1, 1000, ["g"]))
        for k in range(5):
            feats.append(mk("t%d.e%d" % (t, k), "exon", 100 * k + 1 + t, 100 * k + 50 + t, ["t%d" % t]))
    db = gffutils.create_db(feats, ":memory:")
    key = lambda f: (f.seqid, f.start, f.end, f.featuretype, f.strand)
    whole_i = sorted(key(f) for f in db.create_introns())
    whole_s = sorted(key(f) for f in db.create_splice_sites())
    cases += 1
    lazy = []
    for intron in db.create_introns():
        lazy.append(key(intron))
        for tr in ("t0", "t1"):
            list(db.children(tr, level=1, featuretype="exon", order_by="start"))
            list(db.children(tr, featuretype="exon", order_by="start"))
    if sorted(lazy) != whole_i or len(whole_i) != 8:
        fails.append({"case": "per yielded intron: children(transcript, featuretype='exon', order_by='start') on the same db", "expected": whole_i, "observed": sorted(lazy)})
    cases += 1
    zi, zs = [], []
    gi, gs = db.create_introns(), db.create_splice_sites()
    while True:
        a, b = next(gi, None), next(gs, None)
        if a is None and b is None:
            break
        if a is not None:
            zi.append(key(a))
        if b is not None:
            zs.append(key(b))
    if sorted(zi) != whole_i or sorted(zs) != whole_s:
        fails.append({"case": "create_introns() and create_splice_sites() advanced in lock-step", "expected": [len(whole_i), len(whole_s)], "observed": [len(zi), len(zs)]})
    U.bounded_result("C15.bounded.interleaved", "introns / splice sites consumed lazily among other queries on the same FeatureDB == consumed at once", "2 transcripts x 5 exons; nested children() queries; two generators in lock-step", cases, fails)

def unit_bounded_inputs_unchanged(U):
    """Bounded: interfeatures / create_introns / create_splice_sites leave the features they are given as they were - field by
    field, every attribute value list in its order - also for features carrying the non-default options
    (sort_attribute_values=True, keep_order=True)"""
    import gffutils
    fails, cases = [], 0
    for opts in ({}, {"sort_attribute_values": True}, {"keep_order": True}, {"sort_attribute_values": True, "keep_order": True}):
        feats = []
        for i, (sq, a, b) in enumerate((("c1", 1, 10), ("c1", 21, 30), ("c2", 5, 9), ("c2", 15, 19))):
            feats.append(F.Feature(seqid=sq, source="s", featuretype="exon", start=a, end=b, strand="+", attributes={"ID": ["e%d" % i], "Note": ["zeta", "alpha", "mid"], "Parent": ["t2", "t1"]}, **opts))
        snap = [(f.seqid, f.start, f.end, f.strand, {k: list(v) for k, v in f.attributes.items()}, list(f.attributes.keys())) for f in feats]
        db = gffutils.create_db([F.Feature(seqid="c1", featuretype="gene", start=1, end=2, attributes={"ID": ["z"]})], ":memory:", **opts)
        for ma in (True, False):
            cases += 1
            list(db.interfeatures(feats, merge_attributes=ma, numeric_sort=True))
            now = [(f.seqid, f.start, f.end, f.strand, {k: list(v) for k, v in f.attributes.items()}, list(f.attributes.keys())) for f in feats]
            if now != snap:
                k = [i for i in range(len(snap)) if snap[i] != now[i]][0]
                fails.append({"case": {"options": opts, "merge_attributes": ma, "feature": k}, "expected": snap[k][4], "observed": now[k][4]})
    U.bounded_result("C15.bounded.inputs_unchanged", "the features handed to interfeatures are unchanged afterwards (every attribute list in its order)", "4 option sets x merge_attributes on/off, 4 features on 2 seqids with unsorted multi-valued attributes", cases, fails)

def unit_dep_order(U):
    """the ordering contract the intron / splice-site units ASSUME for children(..., order_by='start') - the query builder
    turns order_by='start' into ORDER BY start ASC whatever was asked before in the same process - is discharged here as
    well, on the real make_query (same obligations as C11.order, shared)"""
    from props import C11
    C11.unit_order(U, prefix="C15.dep", only=("str:start",))


UNITS = [("dep.order", unit_dep_order), ("bounded.inputs_unchanged", unit_bounded_inputs_unchanged), ("bounded.interleaved", unit_bounded_interleaved), ("bounded.switch", unit_bounded_switch), ("bounded.after_delete", unit_bounded_after_delete), ("body", unit_body), ("introns", unit_introns), ("splice", unit_splice), ("bounded.numeric", unit_bounded_numeric)]
try:
    from standins import C15 as _S
    UNITS = UNITS + list(_S.UNITS)
except ImportError:
    pass


def replay_file(doc):
    return battery_replay()
