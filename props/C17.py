"""C17 - attribute container, JSON storage form and feature equality are coherent."""
import copy
import itertools
import z3

import simplejson
import gffutils
import gffutils.feature as F
import gffutils.helpers as H
import gffutils.attributes as AT
from gffutils import constants
from gffutils.attributes import Attributes

from pyvc.core import SInt, SBool, SStr, SSeq, SSetStr, Val, Lit, Undecided, Ctx, mkstr
from pyvc.interp import Interp
from contracts.common import blank_feature
from contracts import importer as IM
from props.C04 import _streq

LEVEL = "proof"
EXPLANATION = ("Attributes.__init__/__setitem__/__getitem__/update/items/values, Feature.__getitem__/__setitem__, helpers._jsonify / "
               "_unjsonify, Feature.__eq__/__ne__/__hash__ and helpers.merge_attributes are executed symbolically per path: values are "
               "stored as the given list/tuple or wrapped into a one-item list (scalar strings, abstract lists of any length), the view "
               "switch only affects one-item lists and never writes, update/constructor go through __setitem__, the JSON helpers call "
               "dumps on the underlying dict with compact separators / Attributes(loads(.)), equality and hash are those of the printed "
               "line (hash as an uninterpreted function: equal features hash alike by congruence), merge_attributes returns per key "
               "sorted(set(values of both)) and writes to neither argument.  simplejson's loads(dumps(x)) == x is an assumed contract, "
               "validated on adversarial Unicode in the bounded stand-in.")
TRUSTED = ["T1"]
ASSUMPTIONS = ["A-J simplejson: loads(dumps(x, separators=(',',':'))) == x for str-keyed dicts of lists of str, key order kept (validated, bounded)",
               "A-P sorted/set/copy.deepcopy semantics"]
PRECONDITIONS = ["attribute keys are strings"]
FUNCTIONS = ["gffutils.attributes:Attributes.__init__", "gffutils.attributes:Attributes.__setitem__", "gffutils.attributes:Attributes.__getitem__",
             "gffutils.attributes:Attributes.update", "gffutils.attributes:Attributes.items", "gffutils.attributes:Attributes.values",
             "gffutils.feature:Feature.__getitem__", "gffutils.feature:Feature.__setitem__", "gffutils.helpers:_jsonify", "gffutils.helpers:_unjsonify",
             "gffutils.feature:Feature.__eq__", "gffutils.feature:Feature.__ne__", "gffutils.feature:Feature.__hash__", "gffutils.helpers:merge_attributes"]


def sv(name):
    return SStr([Val(z3.String(name))])


class switch(object):
    def __init__(self, value):
        self.value = value

    def __enter__(self):
        self.old = constants.always_return_list
        constants.always_return_list = self.value

    def __exit__(self, *a):
        constants.always_return_list = self.old


def value_shapes():
    yield "scalar", lambda: sv("v"), "wrap"
    yield "list1", lambda: [sv("v")], "keep"
    yield "list2", lambda: [sv("v"), sv("w")], "keep"
    yield "tuple2", lambda: (sv("v"), sv("w")), "keep"
    yield "empty", lambda: [], "keep"
    yield "abstract-list", lambda: IM.sym_seq_of_strings("vs", excl=frozenset())[0], "keep"
    yield "int", lambda: SInt(z3.Int("n")), "wrap"


def unit_container(U):
    it = Interp()
    for name, mk, mode in value_shapes():
        for via in ("attributes", "feature", "update", "init", "setdefault"):
            def run(ctx, mk=mk, via=via):
                v = mk()
                a = object.__new__(Attributes)
                a._d = {"Other": [sv("o")]}
                old = dict(a._d)
                if via == "attributes":
                    it.call(Attributes.__setitem__, [a, "Name", v], {})
                elif via == "feature":
                    f = blank_feature(attributes=a)
                    it.call(F.Feature.__setitem__, [f, "Name", v], {})
                elif via == "update":
                    it.call(Attributes.update, [a, {"Name": v}], {})
                elif via == "setdefault":
                    it.call(getattr(Attributes, "setdefault"), [a, "Name", v], {})       # absent key: stored like an assignment
                else:
                    a = it.call(Attributes, [{"Other": old["Other"], "Name": v}], {})
                ctx.stash.update(a=a, v=v, old=old)
                return a
            for p in U.explore(run, it):
                st = p.ctx.stash
                ok = p.kind == "return"
                good = False
                if ok:
                    a, v = st["a"], st["v"]
                    stored = a._d.get("Name")
                    if mode == "wrap":
                        good = isinstance(stored, list) and len(stored) == 1 and stored[0] is v
                    else:
                        good = stored is v
                    good = good and a._d.get("Other") is st["old"]["Other"] and set(a._d) == {"Other", "Name"}

                def replay(m, name=name, via=via):
                    val = {"scalar": "x", "list1": ["x"], "list2": ["x", "y"], "tuple2": ("x", "y"), "empty": [], "abstract-list": ["a", "b", "c"], "int": 7}[name]
                    a = Attributes({"Other": ["o"]})
                    if via == "attributes":
                        a["Name"] = val
                    elif via == "feature":
                        f = F.Feature(attributes=a)
                        f["Name"] = val
                    elif via == "update":
                        a.update({"Name": val})
                    elif via == "setdefault":
                        a.setdefault("Name", val)
                    else:
                        a = Attributes({"Other": ["o"], "Name": val})
                    exp = val if isinstance(val, (list, tuple)) else [val]
                    return {"inputs": {"value": repr(val), "via": via}, "expected": repr(exp), "observed": repr(a._d.get("Name")), "violates": a._d.get("Name") != exp or a._d.get("Other") != ["o"]}
                U.prove("C17.Attr.set[%s,%s]#p%d" % (name, via, p.index), "_d' == old(_d)[k -> (v if v is a list/tuple else [v])]; other keys untouched", [], z3.BoolVal(bool(good)), {}, replay=replay)

    # __getitem__ / items / values under both settings of the switch
    for arl in (True, False):
        for name, mk, mode in value_shapes():
            if name in ("scalar", "int"):
                continue

            def run2(ctx, mk=mk, arl=arl):
                v = mk()
                a = object.__new__(Attributes)
                a._d = {"Name": v}
                ctx.stash.update(a=a, v=v)
                with switch(arl):
                    r = it.call(Attributes.__getitem__, [a, "Name"], {})
                    r2 = it.call(Attributes.items, [a], {})
                return r, r2
            for p in U.explore(run2, it):
                st = p.ctx.stash
                v = st["v"]
                ok = p.kind == "return"
                goal = z3.BoolVal(False)
                if ok:
                    r, r2 = p.value
                    unchanged = st["a"]._d == {"Name": v} and st["a"]._d["Name"] is v and not [w for w in p.ctx.writes if w[0] is st["a"] or w[0] is st["a"]._d]
                    if isinstance(v, SSeq):
                        n = v.length
                        first = v.elem(z3.IntVal(0))
                        single = z3.And(z3.BoolVal(not arl), n == 1)
                        is_first = z3.BoolVal(isinstance(r, SStr)) if isinstance(r, SStr) else z3.BoolVal(False)
                        goal = z3.And(z3.BoolVal(unchanged), z3.If(single, _streq(r, first) if isinstance(r, SStr) else z3.BoolVal(False), z3.BoolVal(r is v)))
                    else:
                        single = (not arl) and isinstance(v, list) and len(v) == 1
                        goal = z3.BoolVal(unchanged and ((r is v[0]) if single else (r is v)) and len(r2) == 1 and r2[0][0] == "Name" and (r2[0][1] is r or r2[0][1] is v))
                U.prove("C17.Attr.get[%s,always_return_list=%s]#p%d" % (name, arl, p.index),
                        "always_return_list ==> the stored sequence; otherwise a one-item *list* is viewed as its item; the container is never written; items() pairs keys with the same view",
                        p.pc, goal, {}, replay=lambda m, arl=arl: _replay_get(arl))

    # missing key
    def run3(ctx):
        a = object.__new__(Attributes)
        a._d = {}
        return it.call(Attributes.__getitem__, [a, "nope"], {})
    for p in U.explore(run3, it):
        U.prove("C17.Attr.get.missing#p%d" % p.index, "absent key ==> KeyError", [], z3.BoolVal(p.kind == "raise" and isinstance(p.value, KeyError)), {})

    # Feature.__getitem__ by name delegates to attributes
    def run4(ctx):
        a = object.__new__(Attributes)
        v = [sv("v")]
        a._d = {"Name": v}
        f = blank_feature(attributes=a)
        ctx.stash["v"] = v
        return it.call(F.Feature.__getitem__, [f, "Name"], {}), it.call(F.Feature.__getitem__, [f, 0], {}), f
    for p in U.explore(run4, it):
        ok = p.kind == "return" and p.value[0] is p.ctx.stash["v"] and p.value[1] is p.value[2].seqid
        U.prove("C17.Feature.getitem#p%d" % p.index, "feature[key] is feature.attributes[key]; feature[int] is the positional column", [], z3.BoolVal(bool(ok)), {})


def _replay_get(arl):
    a = Attributes({"one": ["x"], "two": ["x", "y"], "none": [], "tup": ("t",)})
    old = constants.always_return_list
    constants.always_return_list = arl
    try:
        got = {k: a[k] for k in a.keys()}
        items = dict(a.items())
    finally:
        constants.always_return_list = old
    exp = {"one": ["x"] if arl else "x", "two": ["x", "y"], "none": [], "tup": ("t",)}
    return {"inputs": {"always_return_list": arl}, "expected": exp, "observed": got, "violates": got != exp or items != exp or a._d != {"one": ["x"], "two": ["x", "y"], "none": [], "tup": ("t",)}}


def unit_json(U, prefix="C17"):
    it = Interp()
    log = []
    it.contracts[simplejson.dumps] = lambda interp, a, k: (log.append(("dumps", a, k)), IM.OpaqueJSON(a[0]))[1]
    it.contracts[simplejson.loads] = lambda interp, a, k: (log.append(("loads", a, k)), {"<loaded>": a[0]})[1]

    def run(ctx):
        del log[:]
        a = object.__new__(Attributes)
        a._d = {"k": [sv("v")]}
        r1 = it.call(H._jsonify, [a], {})
        r2 = it.call(H._jsonify, [["extra", sv("e")]], {})
        r3 = it.call(H._unjsonify, [sv("text")], {"isattributes": True})
        r4 = it.call(H._unjsonify, [sv("text2")], {})
        n0 = len(log)
        # decoding the same stored text twice gives two independent objects (no cache shared between Features)
        it.contracts[simplejson.loads] = lambda interp, a_, k_: (log.append(("loads", a_, k_)), {"k": [a_[0]]})[1]
        t = sv("text3")
        r5 = it.call(H._unjsonify, [t], {"isattributes": True})
        r6 = it.call(H._unjsonify, [t], {"isattributes": True})
        it.contracts[simplejson.loads] = lambda interp, a_, k_: (log.append(("loads", a_, k_)), {"<loaded>": a_[0]})[1]
        ctx.stash.update(r5=r5, r6=r6, nloads=len(log) - n0)
        del log[n0:]
        return a, r1, r2, r3, r4, list(log)

    def replay(m):
        for d in ({"a": ["1", " ", "q\"uote", "\\", "\x00", "\ud800"]}, {"z": ["1"], "a": ["2"], "m": []}, {}):
            a = Attributes(d)
            t = H._jsonify(a)
            b = H._unjsonify(t, isattributes=True)
            if not isinstance(b, Attributes) or b._d != a._d or list(b.keys()) != list(a.keys()) or " " in t.replace("q\\\"uote", ""):
                return {"inputs": d, "observed": t, "violates": True}
        if H._unjsonify(H._jsonify(["x", "y"])) != ["x", "y"]:
            return {"inputs": ["x", "y"], "violates": True}
        return {"violates": False}
    def replay_fresh(m):
        f = F.Feature(seqid="c", featuretype="gene", start=1, end=5, attributes={"ID": ["g"], "Note": ["n1"]})
        db = gffutils.create_db([f], ":memory:")
        a = db["g"]
        a.attributes["Note"].append("edited")
        b = db["g"]
        t = H._jsonify(f.attributes)
        x = H._unjsonify(t, isattributes=True)
        x["Note"].append("edited")
        y = H._unjsonify(t, isattributes=True)
        obs = {"refetched Note": list(b.attributes["Note"]), "second decode Note": list(y["Note"])}
        return {"inputs": "decode, edit a value list in place, decode the same text again", "expected": {"refetched Note": ["n1"], "second decode Note": ["n1"]}, "observed": obs,
                "violates": obs["refetched Note"] != ["n1"] or obs["second decode Note"] != ["n1"]}
    for p in U.explore(run, it):
        ok = False
        if p.kind == "return":
            a, r1, r2, r3, r4, lg = p.value
            compact = {"separators": (",", ":")}
            ok = (len(lg) == 4 and lg[0][0] == "dumps" and lg[0][1][0] is a._d and lg[0][2] == compact and lg[1][0] == "dumps" and lg[1][2] == compact
                  and isinstance(lg[1][1][0], list) and lg[2][0] == "loads" and lg[3][0] == "loads"
                  and isinstance(r3, Attributes) and list(r3._d.keys()) == ["<loaded>"] and r4 == {"<loaded>": lg[3][1][0]})
        st = p.ctx.stash
        fresh = (p.kind == "return" and isinstance(st.get("r5"), Attributes) and isinstance(st.get("r6"), Attributes) and st["r5"] is not st["r6"] and st["r5"]._d is not st["r6"]._d
                 and st["r5"]._d.get("k") is not st["r6"]._d.get("k") and st.get("nloads") == 2)
        U.prove(prefix + ".json.fresh#p%d" % p.index, "every _unjsonify(text, isattributes=True) decodes anew: two decodes of the same text share no container (editing one Feature's value list cannot reach another)",
                [], z3.BoolVal(bool(fresh)), {}, replay=replay_fresh)
        U.prove(prefix + ".json#p%d" % p.index, "_jsonify(Attributes) == dumps(x._d, compact); _jsonify(other) == dumps(x, compact); _unjsonify(s, True) == Attributes(loads(s)); _unjsonify(s) == loads(s)",
                [], z3.BoolVal(bool(ok)), {}, replay=replay)
    # lemma: identity under A-J
    S = z3.DeclareSort("JsonVal")
    T = z3.StringSort()
    dumps = z3.Function("dumps", S, T)
    loads = z3.Function("loads", T, S)
    x = z3.Const("x", S)
    U.prove(prefix + ".lemma.json_identity", "A-J (loads(dumps(d)) == d) ==> _unjsonify(_jsonify(a), True)._d == a._d", [z3.ForAll([x], loads(dumps(x)) == x)],
            loads(dumps(x)) == x, {}, kind="lemma")


def unit_eq_hash(U):
    it = Interp()
    sa, sb = z3.String("str_a"), z3.String("str_b")
    Hash = z3.Function("hash", z3.StringSort(), z3.IntSort())

    def setup(ctx):
        a, b = blank_feature(id="A"), blank_feature(id="B")
        it.contracts[F.Feature.__str__] = lambda interp, args, k: SStr([Val(sa)]) if args[0] is a else SStr([Val(sb)])
        import builtins
        it.models.table[builtins.hash] = lambda x: SInt(Hash(SStr.of(x).z3())) if isinstance(x, (str, SStr)) else (_ for _ in ()).throw(Undecided("hash of %r" % (x,)))
        return a, b

    def replay(m):
        f = F.Feature(seqid="c", start=1, end=5, attributes={"ID": ["a"], "Name": ["n1"]})
        g = F.Feature(seqid="c", start=1, end=5, attributes={"ID": ["a"], "Name": ["n2"]})
        h0 = hash(f)
        bad = (f == g) or not (f != g) or h0 != hash(str(f))
        f.attributes["Name"] = ["n2"]           # now prints like g
        bad = bad or not (f == g) or (f != g) or hash(f) != hash(g) or hash(f) != hash(str(f)) or len({f, g}) != 1
        f.end = 7
        g.end = 7
        bad = bad or hash(f) != hash(g) or not (f == g)
        return {"inputs": "hash, then edit through .attributes / .end, compare with an equal feature", "observed": "hash(f)=%d hash(g)=%d eq=%s" % (hash(f), hash(g), f == g), "violates": bad}
    for op, fn, spec in (("eq", F.Feature.__eq__, lambda: sa == sb), ("ne", F.Feature.__ne__, lambda: sa != sb)):
        def run(ctx, fn=fn):
            a, b = setup(ctx)
            return it.call(fn, [a, b], {})
        for p in U.explore(run, it):
            ok = p.kind == "return" and isinstance(p.value, (SBool, bool))
            v = p.value.e if isinstance(p.value, SBool) else z3.BoolVal(bool(p.value)) if ok else None
            U.prove("C17.%s#p%d" % (op, p.index), "a %s b  <==>  str(a) %s str(b)" % ("==" if op == "eq" else "!=", "==" if op == "eq" else "!="), p.pc,
                    (v == spec()) if ok else z3.BoolVal(False), {"str_a": sa, "str_b": sb}, replay=replay)

    def runh(ctx):
        a, b = setup(ctx)
        return it.call(F.Feature.__hash__, [a], {})
    for p in U.explore(runh, it):
        ok = p.kind == "return" and isinstance(p.value, SInt)
        U.prove("C17.hash#p%d" % p.index, "hash(a) == hash(str(a)) (recomputed from the printed line at every call)", p.pc, (p.value.e == Hash(sa)) if ok else z3.BoolVal(False), {"str_a": sa}, replay=replay)
    sc = z3.String("str_a_after_edit")

    def runh2(ctx):
        a, b = setup(ctx)
        state = {"n": 0}

        def strc(interp, args, k):
            if args[0] is a:
                state["n"] += 1
                return SStr([Val(sa)]) if state["n"] == 1 else SStr([Val(sc)])
            return SStr([Val(sb)])
        it.contracts[F.Feature.__str__] = strc
        h1 = it.call(F.Feature.__hash__, [a], {})
        h2 = it.call(F.Feature.__hash__, [a], {})     # the printed line changed in between (arbitrary edit)
        return h1, h2
    for p in U.explore(runh2, it):
        ok = p.kind == "return" and isinstance(p.value[0], SInt) and isinstance(p.value[1], SInt)
        U.prove("C17.hash.after_edit#p%d" % p.index, "hash(a) == hash(str(a)) also after the feature was hashed before and then edited (no stale value)", p.pc,
                z3.And(p.value[0].e == Hash(sa), p.value[1].e == Hash(sc)) if ok else z3.BoolVal(False), {"str_a": sa}, replay=replay)
    U.prove("C17.lemma.hash_alike", "a == b ==> hash(a) == hash(b)  (from the three contracts)", [sa == sb], Hash(sa) == Hash(sb), {}, kind="lemma")


class Sorted(object):
    """result of sorted(set(items)) on symbolic strings: remembers the items"""
    _pyvc_model = True

    def __init__(self, items):
        self.items = list(items)


def unit_merge_attributes(U):
    it = Interp()
    import builtins

    def dcopy(interp, args, kwargs):
        def cp(x):
            if isinstance(x, dict):
                return {k: cp(v) for k, v in x.items()}
            if isinstance(x, list):
                return [cp(v) for v in x]
            if isinstance(x, tuple):
                return tuple(cp(v) for v in x)
            if isinstance(x, Attributes):
                a = object.__new__(Attributes)
                a._d = cp(x._d)
                return a
            return x
        return cp(args[0])
    it.contracts[copy.deepcopy] = dcopy
    base_sorted = it.models.table[builtins.sorted]
    it.models.table[builtins.sorted] = lambda x, **k: Sorted(x.items) if isinstance(x, SSetStr) else base_sorted(x, **k)
    shapes = [("only1", [1], None), ("only2", None, [1]), ("both11", [1], [1]), ("both21", [2], [1]), ("both02", [0], [2]), ("both12", [1], [2])]
    for kind in ("dict", "Attributes"):
        for name, n1, n2 in shapes:
            def run(ctx, n1=n1, n2=n2, kind=kind):
                l1 = [sv("a%d" % i) for i in range(n1[0])] if n1 else None
                l2 = [sv("b%d" % i) for i in range(n2[0])] if n2 else None
                d1 = {"x": [sv("x1")]}
                d2 = {"y": [sv("y2")]}
                if l1 is not None:
                    d1["k"] = l1
                if l2 is not None:
                    d2["k"] = l2
                if kind == "Attributes":
                    a1, a2 = object.__new__(Attributes), object.__new__(Attributes)
                    a1._d, a2._d = d1, d2
                else:
                    a1, a2 = d1, d2
                snap = ({k: list(v) for k, v in d1.items()}, {k: list(v) for k, v in d2.items()})
                ctx.stash.update(d1=d1, d2=d2, l1=l1, l2=l2, snap=snap)
                return it.call(H.merge_attributes, [a1, a2], {})

            def replay(m, n1=n1, n2=n2, kind=kind):
                mk = (lambda d: Attributes(d)) if kind == "Attributes" else (lambda d: d)
                d1 = {"x": ["x1"]}
                d2 = {"y": ["y2"]}
                if n1:
                    d1["k"] = ["v%d" % (i % 2) for i in range(n1[0])]
                if n2:
                    d2["k"] = ["v%d" % ((i + 1) % 3) for i in range(n2[0])]
                c1, c2 = copy.deepcopy(d1), copy.deepcopy(d2)
                r = H.merge_attributes(mk(d1), mk(d2))
                exp = {k: sorted(set(d1.get(k, []) + d2.get(k, []))) for k in set(d1) | set(d2)}
                return {"inputs": [c1, c2], "expected": exp, "observed": dict(r), "violates": dict(r) != exp or d1 != c1 or d2 != c2}
            for p in U.explore(run, it):
                st = p.ctx.stash
                ok = p.kind == "return" and isinstance(p.value, dict)
                good = False
                if ok:
                    r = p.value
                    want = {"x": [st["d1"]["x"][0]], "y": [st["d2"]["y"][0]]}
                    if st["l1"] is not None or st["l2"] is not None:
                        want["k"] = (st["l1"] or []) + (st["l2"] or [])
                    good = set(r) == set(want)
                    for k in want:
                        got = r.get(k)
                        items = got.items if isinstance(got, Sorted) else (got if isinstance(got, list) else None)
                        if items is None or sorted(map(id, items)) != sorted(map(id, want[k])):
                            # the same values, each passed to sorted(set(.)) - as multiset of symbolic items
                            good = False
                        if not isinstance(got, Sorted) and want[k]:
                            good = False
                    unchanged = ({k: list(v) for k, v in st["d1"].items()}, {k: list(v) for k, v in st["d2"].items()})
                    frame = all(len(a) == len(b) and all(x is y for x, y in zip(a[k], b[k])) for a, b in zip(unchanged, st["snap"]) for k in a) and \
                        set(st["d1"]) == set(st["snap"][0]) and set(st["d2"]) == set(st["snap"][1])
                    good = good and frame
                U.prove("C17.merge_attrs[%s,%s]#p%d" % (kind, name, p.index),
                        "for every key: result[k] == sorted(set(values of attr1[k] and attr2[k])), no other key; neither argument (nor any of its lists) is modified",
                        [], z3.BoolVal(bool(good)), {}, replay=replay)


def unit_switch_kept(U):
    """the module switch belongs to the USER: printing / comparing / hashing Features (with attributes, without any, with an
    empty value list) under either setting leaves constants.always_return_list as the user set it"""
    import gffutils.parser as P_
    for arl in (False, True):
        for shape, attrs in (("no-attributes", {}), ("one", {"ID": ["g1"]}), ("flag", {"ID": ["g1"], "pseudo": []})):
            it = Interp()

            def run(ctx, arl=arl, attrs=attrs):
                with switch(arl):
                    a = object.__new__(Attributes)
                    a._d = {k: list(v) for k, v in attrs.items()}
                    f = blank_feature(seqid="c", source="s", featuretype="gene", start=1, end=5, attributes=a)
                    g = blank_feature(seqid="c", source="s", featuretype="gene", start=1, end=5, attributes=a)
                    seen = []
                    for fn, args in ((F.Feature.__str__, [f]), (F.Feature.__eq__, [f, g]), (F.Feature.__hash__, [f])):
                        try:
                            it.call(fn, args, {})
                        except Undecided:
                            raise
                        except Exception as e:
                            seen.append(("raised", type(e).__name__))
                        seen.append(constants.always_return_list)
                    return seen

            def replay(m, arl=arl, attrs=attrs):
                old = constants.always_return_list
                constants.always_return_list = arl
                try:
                    f = F.Feature(seqid="c", source="s", featuretype="gene", start=1, end=5, attributes={k: list(v) for k, v in attrs.items()})
                    g = F.feature_from_line("c\ts\tgene\t1\t5\t.\t+\t.\tID=g1")
                    obs = []
                    for op in (lambda: f == f, lambda: hash(f), lambda: (str(f) if arl or not attrs else None)):
                        try:
                            op()
                        except Exception as e:
                            obs.append("raised %s" % type(e).__name__)
                        obs.append(constants.always_return_list)
                    view = g["ID"]
                    exp_view = ["g1"] if arl else "g1"
                    return {"inputs": {"always_return_list": arl, "attributes": attrs, "then": "another feature's ['ID']"}, "expected": [arl, exp_view],
                            "observed": [obs, view], "violates": any(x is not arl for x in obs if isinstance(x, bool)) or view != exp_view}
                finally:
                    constants.always_return_list = old
            for p in U.explore(run, it):
                ok = p.kind == "return" and all(x is arl for x in p.value if isinstance(x, bool)) and len([x for x in p.value if isinstance(x, bool)]) == 3
                U.prove("C17.switch.kept[%s,always_return_list=%s]#p%d" % (shape, arl, p.index), "str / == / hash of a Feature leave constants.always_return_list as it was set", [], z3.BoolVal(bool(ok)), {}, replay=replay)


UNITS = [("switch_kept", unit_switch_kept), ("container", unit_container), ("json", unit_json), ("eq_hash", unit_eq_hash), ("merge_attributes", unit_merge_attributes)]
try:
    from standins import C17 as _S
    UNITS = UNITS + list(_S.UNITS)
except ImportError:
    pass


def replay_file(doc):
    return {"error": "re-run ./check C17 to regenerate and replay this obligation", "violates": None, "stored": doc.get("inputs")}


def replay_known(entry):
    w = entry.get("replay")
    if w == "merge-attributes-tuple":
        try:
            r = H.merge_attributes({}, {"k": ("a",)})
            return r != {"k": ["a"]}
        except Exception:
            return True
    if w == "merge-attributes-shared-list":
        L = []
        r = H.merge_attributes({"j": "b"}, {"j": L, "k": L})
        return r.get("k") != []
    return None
