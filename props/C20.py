"""C20 - concurrent imports are independent and leave no temp files."""
import types
import z3

import gffutils
import gffutils.create as C
import gffutils.iterators as IT
from gffutils import constants

from pyvc.core import Undecided
from pyvc.interp import Interp
from contracts import pipeline as PL
from contracts import importer as IM

LEVEL = "other"
EXPLANATION = ("What a sequential deductive verifier can decide is the *guarantee* half of a rely/guarantee argument, and only that is "
               "PROVED here: by end-to-end symbolic execution of the real create_db (GFF3 and GTF importers, file and from_string input) over "
               "the ghost file system - (1) footprint: every file opened for writing is the output database (one sqlite3.connect(dbfn)) or "
               "a name returned by tempfile.NamedTemporaryFile(delete=False) in the same call; no attribute of a module or class is "
               "written; (2) cleanup: every temp name created during the call is unlinked before it returns, unless _keep_tempfiles.  "
               "The *schedule quantifier* of the statement (any number of processes, any interleaving; concurrent readers) is NOT decided by "
               "this technique: it is the assumption A-C 'OS processes with disjoint write sets and private connections do not interfere'.  "
               "BOUNDED (validation of that assumption, never counted as proved): real concurrent create_db processes sharing one temp "
               "directory, forced interleavings with SIGSTOP, concurrent readers.  Known finding: from_string=True leaves its temp file.")
TRUSTED = ["T1", "contracts/pipeline.py, contracts/importer.py (ghost file system)"]
ASSUMPTIONS = ["A-C (not decided): processes with disjoint write footprints and private sqlite connections do not interfere under any interleaving; concurrent readers of a finished sqlite file see all committed rows",
               "A-P NamedTemporaryFile(delete=False) returns a fresh name (O_EXCL)"]
PRECONDITIONS = []
FUNCTIONS = ["gffutils.create:create_db", "gffutils.create:_GFFDBCreator._update_relations", "gffutils.create:_GTFDBCreator._update_relations", "gffutils.iterators:DataIterator"]


def _run(it, fmt, from_string, keep, force=False, gz=False):
    dialect = dict(constants.dialect, fmt=fmt)

    def features(n, line, k):
        f, _ = IM.sym_feature("F%d" % n, {"gene_id": [IM.sval("F%d.gene_id" % n)[0]], "transcript_id": [IM.sval("F%d.transcript_id" % n)[0]], "ID": [IM.sval("F%d.ID" % n)[0]]})
        return f
    base = PL.run_create_db(it, "F" if fmt == "gtf" else "FF", 1, dialect=dialect, features=features, _keep_tempfiles=keep, **dict(({"force": True} if force else {}), **({"path": "/ghost/in.gff.gz"} if gz else {})))
    if not from_string:
        return base

    def run(ctx):
        lines, info = PL.make_lines("F" if fmt == "gtf" else "FF")
        for (k, v, s) in info:
            from pyvc.core import SStr, Val
            if isinstance(s, SStr):
                for a in s.atoms:
                    if isinstance(a, Val):
                        for c in a.constraints():
                            ctx.assume(c)
        tables = PL.GhostTables()
        env = PL.install(it, lines, tables, dialect=dialect, features=features)
        it.contracts[IT.dedent] = lambda interp, a, k: a[0]
        ctx.stash.update(tables=tables, env=env)
        env["exists"]["/ghost-tmp/tmp1"] = True
        return it.call(C.create_db, ["chr1\t.\tgene\t1\t5\t.\t+\t.\tID=a\n", "/ghost/out.db"], {"checklines": 1, "from_string": True, "_keep_tempfiles": keep})
    return run


_GTF_TEXTS = [
    'chr1\t.\texon\t1\t20\t.\t+\t.\tgene_id "g"; transcript_id "t";\nchr1\t.\texon\t30\t50\t.\t+\t.\tgene_id "g"; transcript_id "t";\n',
    # nothing to infer: no exon line / only explicit gene and transcript lines / one line
    'chr1\t.\tCDS\t1\t20\t.\t+\t0\tgene_id "g"; transcript_id "t";\nchr1\t.\tstart_codon\t1\t3\t.\t+\t0\tgene_id "g"; transcript_id "t";\n',
    'chr1\t.\tgene\t1\t50\t.\t+\t.\tgene_id "g";\nchr1\t.\ttranscript\t1\t50\t.\t+\t.\tgene_id "g"; transcript_id "t";\n',
]
_GFF_TEXTS = [
    "chr1\t.\tgene\t1\t50\t.\t+\t.\tID=g\nchr1\t.\tmRNA\t1\t50\t.\t+\t.\tID=m;Parent=g\nchr1\t.\texon\t1\t20\t.\t+\t.\tID=e;Parent=m\n",
    # no relation at all / a single feature
    "chr1\t.\tgene\t1\t50\t.\t+\t.\tID=g\nchr1\t.\tgene\t60\t90\t.\t+\t.\tID=h\n",
    "chr1\t.\tgene\t1\t50\t.\t+\t.\tID=g\n",
]


def _native_tmp_replay(fmt, from_string, keep, gz=False):
    """input shapes tried: the ordinary hierarchy, then inputs with nothing to relate / infer"""
    last = None
    for text in (_GFF_TEXTS if fmt == "gff3" else _GTF_TEXTS):
        last = _native_tmp_replay1(fmt, from_string, keep, text, gz=gz)
        if last.get("violates"):
            return last
    return last


def _native_tmp_replay1(fmt, from_string, keep, text, gz=False):
    import tempfile, os, shutil
    d = tempfile.mkdtemp()
    old = tempfile.tempdir
    tempfile.tempdir = d
    try:
        out = os.path.join(d, "out.db")
        if from_string:
            gffutils.create_db(text, out, from_string=True, _keep_tempfiles=keep)
        else:
            src = os.path.join(d, "in.txt.gz" if gz else "in.txt")
            if gz:
                import gzip
                with gzip.open(src, "wt") as fh:
                    fh.write(text)
            else:
                open(src, "w").write(text)
            gffutils.create_db(src, out, _keep_tempfiles=keep)
        left = sorted(x for x in os.listdir(d) if x not in ("out.db", "in.txt", "in.txt.gz"))
        exp_none = not keep
        return {"inputs": {"fmt": fmt, "from_string": from_string, "_keep_tempfiles": keep, "text": text}, "expected": "no intermediate file left" if exp_none else "kept files only",
                "observed": left, "violates": bool(left) if exp_none else False}
    finally:
        tempfile.tempdir = old
        shutil.rmtree(d, ignore_errors=True)


def _native_noraise_replay(fmt, from_string, keep, gz=False, force=False):
    """the `.noraise` clauses: does create_db raise on the ordinary inputs?  (whatever is left behind is the business
    of the other clauses - a replay that looked at files would "confirm" a raise with an unrelated observation)"""
    import tempfile, os, shutil
    last = None
    for text in (_GFF_TEXTS if fmt == "gff3" else _GTF_TEXTS):
        d = tempfile.mkdtemp()
        old = tempfile.tempdir
        tempfile.tempdir = d
        try:
            out = os.path.join(d, "out.db")
            if from_string:
                src = text
            else:
                src = os.path.join(d, "in.txt.gz" if gz else "in.txt")
                if gz:
                    import gzip
                    with gzip.open(src, "wt") as fh:
                        fh.write(text)
                else:
                    open(src, "w").write(text)
            raised = None
            try:
                gffutils.create_db(src, out, from_string=from_string, _keep_tempfiles=keep, force=force)
            except Exception as e:
                raised = "%s: %s" % (type(e).__name__, e)
            last = {"inputs": {"fmt": fmt, "from_string": from_string, "_keep_tempfiles": keep, "force": force, "gz": gz, "text": text},
                    "expected": "no exception", "observed": raised or "no exception", "violates": raised is not None}
            if raised:
                return last
        finally:
            tempfile.tempdir = old
            shutil.rmtree(d, ignore_errors=True)
    return last


def _native_force_replay(fmt):
    """a foreign intermediate file (another import in progress) in the shared temp dir must survive a force=True run"""
    import tempfile, os, shutil
    d = tempfile.mkdtemp()
    old = tempfile.tempdir
    tempfile.tempdir = d
    try:
        foreign = [os.path.join(d, "tmpq7x2k_.gffutils"), os.path.join(d, "unrelated.txt")]
        for fn in foreign:
            open(fn, "w").write("other process\n")
        src = os.path.join(d, "in.txt")
        open(src, "w").write(_GFF_TEXTS[0] if fmt == "gff3" else _GTF_TEXTS[0])
        gffutils.create_db(src, os.path.join(d, "out.db"), force=True)
        left = sorted(os.listdir(d))
        exp = sorted(["in.txt", "out.db", "tmpq7x2k_.gffutils", "unrelated.txt"])
        return {"inputs": {"fmt": fmt, "force": True, "temp dir before": ["tmpq7x2k_.gffutils", "unrelated.txt"]}, "expected": exp, "observed": left, "violates": left != exp}
    finally:
        tempfile.tempdir = old
        shutil.rmtree(d, ignore_errors=True)


def unit_footprint(U):
    for fmt in ("gff3", "gtf"):
        for from_string, force, gz in ((False, False, False), (True, False, False), (False, True, False), (False, False, True)):
            for keep in (False, True):
                if (force or gz) and keep:
                    continue
                it = Interp()
                run = _run(it, fmt, from_string, keep, force=force, gz=gz)
                base = "C20.create_db[%s,%s,keep=%s%s]" % (fmt, "from_string" if from_string else ("gz-file" if gz else "file"), keep, ",force" if force else "")
                replay = (lambda m, fmt=fmt: _native_force_replay(fmt)) if force else (lambda m, fmt=fmt, from_string=from_string, keep=keep, gz=gz: _native_tmp_replay(fmt, from_string, keep, gz=gz))
                for p in U.explore(run, it):
                    if p.kind != "return":
                        U.prove(base + ".noraise#p%d" % p.index, "create_db raises nothing (got %r)" % (p.value,), p.pc, z3.BoolVal(False), {},
                                replay=lambda m, fmt=fmt, from_string=from_string, keep=keep, gz=gz, force=force: _native_noraise_replay(fmt, from_string, keep, gz=gz, force=force))
                        continue
                    effs = p.ctx.effects
                    created = [e[1] for e in effs if e[0] == "tmp-create"]
                    unlinked = [e[1] for e in effs if e[0] == "unlink"]
                    wopens = [e[1] for e in effs if e[0] == "open" and ("w" in e[2] or "a" in e[2])]
                    connects = [e[1] for e in effs if e[0] == "connect"]
                    okfoot = all(w in created for w in wopens) and set(connects) == {"/ghost/out.db"} and all(u in created for u in unlinked)
                    modwrites = [w for w in p.ctx.writes if isinstance(w[0], (types.ModuleType, type))]
                    U.prove(base + ".footprint#p%d" % p.index, "files opened for writing are the output database or temp names created in this call; only such temp names are unlinked; no module or class attribute is written",
                            [], z3.BoolVal(bool(okfoot and not modwrites)), {}, replay=replay)
                    if keep:
                        good = [c for c in created if c not in unlinked]
                        own = [c for c in created if c.endswith(".gffutils")]
                        ok = all(c not in unlinked for c in own)
                        U.prove(base + ".kept#p%d" % p.index, "_keep_tempfiles ==> the importer's intermediate file is kept", [], z3.BoolVal(bool(ok)), {}, replay=replay)
                    else:
                        left = [c for c in created if c not in unlinked]
                        U.prove(base + ".cleanup#p%d" % p.index, "every temp file created during create_db is removed before it returns", [], z3.BoolVal(not left), {"always": z3.BoolVal(True)} if from_string else {},
                                replay=replay)


def unit_bounded_reader_while_open(U):
    """Bounded: a finished database can be read by others while the process that built it still holds the FeatureDB that
    create_db returned - for every importer path (GFF3; GTF with inference; GTF with both inferences disabled)"""
    import tempfile, os, shutil, sqlite3, warnings
    fails, cases = [], 0
    gtf = 'c\ts\texon\t1\t9\t.\t+\t.\tgene_id "g"; transcript_id "t";\nc\ts\texon\t20\t30\t.\t+\t.\tgene_id "g"; transcript_id "t";\n'
    gff = "c\ts\tgene\t1\t30\t.\t+\t.\tID=g\nc\ts\texon\t1\t9\t.\t+\t.\tID=e;Parent=g\n"
    d = tempfile.mkdtemp()
    try:
        for name, text, kw, n in (("gff3", gff, {}, 2), ("gtf", gtf, {}, 4), ("gtf, inference disabled", gtf, {"disable_infer_genes": True, "disable_infer_transcripts": True}, 2)):
            cases += 1
            path = os.path.join(d, "x%d.db" % cases)
            with warnings.catch_warnings():
                warnings.simplefilter("ignore")
                held = gffutils.create_db(text, path, from_string=True, **kw)          # kept alive on purpose
            try:
                other = sqlite3.connect(path, timeout=0.3)
                got = other.execute("SELECT count() FROM features").fetchone()[0]
                other.close()
                via = gffutils.FeatureDB(path).count_features_of_type()
            except Exception as e:
                got = via = "raised %r" % (e,)
            if got != n or via != n:
                fails.append({"case": {"import": name, "importer's FeatureDB": "still alive"}, "expected": n, "observed": [got, via]})
            del held
    finally:
        shutil.rmtree(d, ignore_errors=True)
    U.bounded_result("C20.bounded.reader_while_open", "a second connection reads the finished file while the importing process still holds its FeatureDB", "3 importer paths", cases, fails)

UNITS = [("bounded.reader_while_open", unit_bounded_reader_while_open), ("footprint", unit_footprint)]
try:
    from standins import C20 as _S
    UNITS = UNITS + list(_S.UNITS)
except ImportError:
    pass


def replay_known(entry):
    if entry.get("replay") == "from-string-tempfile":
        return bool(_native_tmp_replay("gff3", True, False).get("violates"))
    return None


def replay_file(doc):
    return {"error": "re-run ./check C20 to regenerate and replay this obligation", "violates": None, "stored": doc.get("inputs")}
