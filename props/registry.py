"""Registry of claimed checks; tools/gen_manifest.py renders MANIFEST.json from it."""
_PENDING = "check under construction in this build phase (see DESIGN.md section 5); not claimed until its obligations discharge on the unchanged tree"

CHECKS = [
    {"property_id": "C12", "category": "proof", "design_ref": "DESIGN.md section 5, C12",
     "text": "bins.bins is executed symbolically from its real AST (loop over the real OFFSETS unrolled, so loop-free) for both coordinate conventions and one=True/False over unbounded mathematical integers; every feasible path is proved against the specification taken from the statement (out-of-range -> 1 / {1}, exact level formula, exact bin set, extent containment, finest level, int result), the nesting lemma is proved over the specification, and Feature.calc_bin / astuple()[11] / helpers._bin_from_dict are proved against the bins contract. A complete proof for all integers; a boundary-grid run-time stand-in of the same clauses is reported separately as bounded.",
     "level_note": "trusted: pyvc symbolic semantics of the Python subset (T1), z3 (T2), the specification contracts/spec_bins.py; assumed: Python ints are mathematical, x>>k == floor(x/2**k)",
     "technique": "contract-based deductive verification: VCs generated from the real AST by symbolic execution (pyvc), discharged by z3; counterexamples replayed on the real function"},
]
_claimed = {c["property_id"] for c in CHECKS}
NOT_APPLICABLE = [{"property_id": "C%02d" % i, "reason": _PENDING} for i in range(1, 21) if "C%02d" % i not in _claimed]
NOTES = ("Contract-based deductive verification of the real gffutils code (engine pyvc). "
         "Exit codes of ./check: 0 held, 1 violation (VIOLATION line), 2 undecided, 3 checker crash.")
