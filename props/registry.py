"""Registry of claimed checks; tools/gen_manifest.py renders MANIFEST.json from it."""
CHECKS = []
_PENDING = "check under construction in this build phase (see DESIGN.md section 5); not claimed until its obligations discharge on the unchanged tree"
NOT_APPLICABLE = [{"property_id": "C%02d" % i, "reason": _PENDING} for i in range(1, 21)]
NOTES = ("Contract-based deductive verification of the real gffutils code (engine pyvc). "
         "Exit codes of ./check: 0 held, 1 violation (VIOLATION line), 2 undecided, 3 checker crash.")
