"""C10 - update/delete histories leave exactly the modelled content; ids never recycle."""
import collections
import os
import shutil
import tempfile
import sqlite3
import z3

import gffutils
import gffutils.create as C
import gffutils.interface as I
import gffutils.iterators as IT
import gffutils.helpers as H
import gffutils.bins as B
import gffutils.feature as F
from gffutils import constants
from gffutils import version

from pyvc.core import SInt, SStr, Val, Lit, Undecided, Ctx, mkstr
from pyvc.interp import Interp
from pyvc import ghostdb, sqlmodel as Q
from contracts.common import bins_contract, blank_feature
from contracts import importer as IM
from contracts import spec_query as SQ
from contracts.qharness import blank_db
from props.C04 import _streq
from props.C16 import sfeat

LEVEL = "other"
EXPLANATION = ("PROVED (z3, per operation, as a step on the ghost database): delete() for every input form (id, Feature, list, FeatureDB) "
               "issues exactly DELETE FROM features WHERE id = x and DELETE FROM relations WHERE parent = x OR child = x per id - row "
               "predicates proved equal to the reference model's - then commits; add_relation inserts exactly (parent, child, level) with a "
               "plain INSERT (an existing triple raises IntegrityError with nothing else written) and rewrites only the rows its callbacks "
               "return; update(): an empty source changes nothing, otherwise the importer of the stored dialect's format is built on the "
               "open database sharing the live counter map (identity), populate / second-level relations / finalize run in this order and "
               "the counters are written back (INSERT OR REPLACE) and re-read on open (FeatureDB.__init__), so numbering continues; the "
               "second-level relations added by an update are compositions of two level-1 edges even when level-2 rows already exist; "
               "with make_backup the copy to '<dbfn>.bak' precedes every other effect of update/delete.  Importer steps per strategy: "
               "C02-C05.  BOUNDED (real file databases, not counted as proved): histories of update/delete/add_relation/reopen of depth "
               "<= 2 (thorough 3) against the reference model, with a failing source at every position.")
TRUSTED = ["contracts/spec_import.py (reference model)", "T3 SQL model", "contracts/importer.py"]
ASSUMPTIONS = ["A-S2 committed data are what a new connection reads; uncommitted work of a failed importer is rolled back", "A-P shutil.copy2 copies the file's bytes"]
PRECONDITIONS = ["ids unique per step unless a merge strategy is given (C05)"]
FUNCTIONS = ["gffutils.create:_DBCreator._insert", "gffutils.create:_DBCreator._replace", "gffutils.interface:FeatureDB.delete", "gffutils.interface:FeatureDB.add_relation", "gffutils.interface:FeatureDB._update", "gffutils.interface:FeatureDB.update",
             "gffutils.interface:FeatureDB.__init__", "gffutils.create:_DBCreator.__init__", "gffutils.create:_DBCreator._finalize", "gffutils.create:_GFFDBCreator._update_relations"]


def _it():
    it = Interp()
    it.contracts[B.bins] = bins_contract
    it.contracts[H._jsonify] = lambda interp, a, k: IM.OpaqueJSON(a[0])
    it.contracts[shutil.copy2] = lambda interp, a, k: Ctx.current.effect("copy2", a[0], a[1])
    return it


def _file_db(conn=None):
    db = blank_db(conn)
    db.dbfn = "/ghost/x.db"
    return db


def unit_delete(U):
    forms = ["str", "feature", "list-str", "list-feature", "tuple-mixed", "featuredb", "generator", "iterator"]
    for form in forms:
        for backup in (True, False):
            for filedb in (True, False):
                if not filedb and not backup:
                    continue
                it = _it()
                x, y = SStr([Val(z3.String("x"), nonempty=True)]), SStr([Val(z3.String("y"), nonempty=True)])

                def run(ctx, form=form, backup=backup, filedb=filedb):
                    db = _file_db() if filedb else blank_db()
                    if not filedb:
                        db.dbfn = db.conn
                    fx, fy = blank_feature(id=x), blank_feature(id=y)
                    arg = {"str": x, "feature": fx, "list-str": [x, y], "list-feature": [fx, fy], "tuple-mixed": (x, fy),
                           "generator": (f_ for f_ in [fx, fy]), "iterator": iter([x, y])}.get(form)
                    ids = [x] if form in ("str", "feature") else [x, y]
                    if form == "featuredb":
                        other = blank_db()
                        it.contracts[I.FeatureDB.all_features] = lambda interp, a, k: iter([fx, fy])
                        arg = other
                    ctx.stash.update(ids=ids, db=db)
                    return it.call(I.FeatureDB.delete, [db, arg], {"make_backup": backup})
                base = "C10.delete[%s,backup=%s,%s]" % (form, backup, "file" if filedb else "memory")

                def replay(m, form=form):
                    return _native_delete(form)
                for p in U.explore(run, it):
                    st = p.ctx.stash
                    ids = st["ids"]
                    ok = p.kind == "return" and p.value is st["db"]
                    effs = IM.classify(p.ctx.effects)
                    stm = [e for e in effs if e.kind in ("insert", "update", "delete", "select", "script")]
                    frow, rrow, rvars = SQ.sym_feature_and_relation()
                    # one statement per row: an executemany counts as one execution per argument row, so that batching the
                    # deletes per table is the same thing as issuing them feature by feature
                    ops = []
                    for e in stm:
                        if e.how == "executemany":
                            try:
                                rows_ = [list(r) for r in e.args]
                            except TypeError:
                                rows_ = None
                            if rows_ is None:
                                ops.append((e, None))
                            else:
                                ops.extend((e, r) for r in rows_)
                        else:
                            ops.append((e, list(e.args) if isinstance(e.args, (list, tuple)) else None))
                    fdel = [(e, a) for e, a in ops if e.kind == "delete" and e.table == "features"]
                    rdel = [(e, a) for e, a in ops if e.kind == "delete" and e.table == "relations"]
                    other = [(e, a) for e, a in ops if not (e.kind == "delete" and e.table in ("features", "relations"))]
                    goals = [z3.BoolVal(bool(ok) and not other and len(fdel) == len(ids) and len(rdel) == len(ids))]
                    for j, idv in enumerate(ids):
                        if len(fdel) <= j or len(rdel) <= j:
                            break
                        (d1, a1), (d2, a2) = fdel[j], rdel[j]
                        if a1 is None or a2 is None or d1.stmt is None or d2.stmt is None:
                            goals.append(z3.BoolVal(False))
                            continue
                        try:
                            w1 = [c for c in d1.stmt.node.children if hasattr(c, "data") and c.data == "where"][0].children[-1]
                            w2 = [c for c in d2.stmt.node.children if hasattr(c, "data") and c.data == "where"][0].children[-1]
                            c1, e1 = Q.where_predicate(w1, {"features": frow}, a1, d1.stmt.holes)
                            c2, e2 = Q.where_predicate(w2, {"relations": rrow}, a2, d2.stmt.holes)
                            goals.append(z3.And(Q._zb(c1) == (frow["id"].term == idv.z3()), Q._zb(c2) == z3.Or(rrow["parent"].term == idv.z3(), rrow["child"].term == idv.z3()),
                                                z3.BoolVal(e1.pos == len(e1.args) and e2.pos == len(e2.args))))
                        except (Q.SQLArgs, Q.SQLSyntax, IndexError):
                            goals.append(z3.BoolVal(False))
                    kinds = [e.kind for e in effs]
                    goals.append(z3.BoolVal(kinds.count("commit") >= 1 and kinds.index("commit") > max([i for i, k in enumerate(kinds) if k == "delete"] or [-1])))
                    U.prove(base + ".rows#p%d" % p.index, "for every given id x: exactly the feature row with id x and the relation rows with parent == x or child == x are deleted, nothing else; then commit; returns self",
                            list(p.pc), z3.And(*goals), rvars, replay=replay)
                    copies = [e for e in effs if e.kind == "copy2"]
                    if backup and filedb:
                        okb = len(copies) == 1 and copies[0].args == ["/ghost/x.db", "/ghost/x.db.bak"] and effs.index(copies[0]) == 0
                    else:
                        okb = not copies
                    U.prove(base + ".backup#p%d" % p.index, "make_backup on a file database ==> the copy to '<dbfn>.bak' precedes every other effect; otherwise no copy", [], z3.BoolVal(bool(okb)), {}, replay=replay)


def _replay_writeback(m=None):
    """replay: counters under bases that are not featuretypes ('autoincrement:X' from a callable id_spec) and per-type counters
    are stored by the import and continue after reopening"""
    import tempfile, os
    d = tempfile.mkdtemp()
    try:
        fn = os.path.join(d, "w.db")
        mk = lambda ft, s_: F.Feature(seqid="c", featuretype=ft, start=s_, end=s_ + 4, attributes={"Note": ["n"]})
        spec = lambda f: "autoincrement:X" if f.featuretype == "exon" else None
        gffutils.create_db([mk("exon", 1), mk("exon", 10), mk("gene", 1)], fn, id_spec=spec).conn.close()
        db = gffutils.FeatureDB(fn)
        stored = sorted(map(tuple, db.conn.execute("SELECT base, n FROM autoincrements")))
        try:
            db.update([mk("exon", 20), mk("gene", 30)], id_spec=spec)
            ids = sorted(f.id for f in db.all_features())
        except Exception as e:
            ids = "raised %r" % (e,)
        exp = ["X_1", "X_2", "X_3", "gene_1", "gene_2"]
        return {"inputs": "create_db(2 exons keyed 'autoincrement:X', 1 id-less gene); reopen; update(1 exon, 1 gene)", "expected": [[("X", 2), ("gene", 1)], exp], "observed": [stored, ids],
                "violates": stored != [("X", 2), ("gene", 1)] or ids != exp}
    finally:
        shutil.rmtree(d, ignore_errors=True)


def _native_delete(form):
    import tempfile, os
    d = tempfile.mkdtemp()
    try:
        fn = os.path.join(d, "d.db")
        mk = lambda i, par=None: F.Feature(seqid="c", featuretype="t", start=1, end=5, attributes=dict({"ID": [i]}, **({"Parent": par} if par else {})))
        feats = [mk("g"), mk("x", ["g"]), mk("y", ["x"]), mk("z", ["y", "g"])]
        db = gffutils.create_db(feats, fn)
        pre = open(fn, "rb").read()
        arg = {"str": "x", "feature": db["x"], "list-str": ["x", "y"], "list-feature": [db["x"], db["y"]], "tuple-mixed": ("x", db["y"]),
               "generator": (f for f in [db["x"], db["y"]]), "iterator": iter(["x", "y"])}.get(form)
        if form == "featuredb":
            # another database holding exactly x and y: delete() takes its all_features() generator
            arg = gffutils.create_db([mk("x"), mk("y")], ":memory:")
        ids = ["x"] if form in ("str", "feature") else ["x", "y"]
        rel0 = set(tuple(r) for r in db.conn.execute("SELECT parent, child, level FROM relations"))
        db.delete(arg, make_backup=True)
        db2 = gffutils.FeatureDB(fn)
        got_ids = sorted(f.id for f in db2.all_features())
        rel1 = set(tuple(r) for r in db2.conn.execute("SELECT parent, child, level FROM relations"))
        exp_ids = sorted(set(["g", "x", "y", "z"]) - set(ids))
        exp_rel = {r for r in rel0 if r[0] not in ids and r[1] not in ids}
        bak = open(fn + ".bak", "rb").read()
        bad = got_ids != exp_ids or rel1 != exp_rel or bak != pre
        if not bad and form == "str":
            # the caller's own uncommitted work on the same object survives a delete() (merge_all stores a merged feature and
            # then deletes its members): insert without commit, delete another feature, reopen
            db3 = gffutils.FeatureDB(fn)
            new = mk("fresh")
            new.id = "fresh"
            db3._insert(new, db3.conn.cursor())
            db3.delete("z", make_backup=True)
            after = sorted(f.id for f in gffutils.FeatureDB(fn).all_features())
            want = sorted((set(exp_ids) | {"fresh"}) - {"z"})
            if after != want:
                return {"inputs": {"history": "_insert(fresh) without commit; delete('z', make_backup=True); reopen"}, "expected": want, "observed": after, "violates": True}
        if not bad:
            # "... and nothing else": the other tables - the duplicates records that later merges consult, the stored counters,
            # directives, meta - are what they were
            fn2 = os.path.join(d, "d2.db")
            mk2 = lambda s_: F.Feature(seqid="c", featuretype="t", start=s_, end=s_ + 4, attributes={"ID": ["k"]})
            dbk = gffutils.create_db([mk2(1), mk2(50), mk2(90), mk("g")], fn2, merge_strategy="merge")
            tabs = ("duplicates", "autoincrements", "directives", "meta")
            snap = lambda c: {t: sorted(map(tuple, c.execute("SELECT * FROM %s" % t))) for t in tabs}
            before = snap(dbk.conn)
            dbk.delete("k", make_backup=False)
            dbk.conn.close()
            import sqlite3 as _sq
            c2 = _sq.connect(fn2)
            after2 = snap(c2)
            left = sorted(r[0] for r in c2.execute("SELECT id FROM features"))
            c2.close()
            if after2 != before or left != ["g", "k_1", "k_2"]:
                return {"inputs": {"history": "create_db([k, k, k, g] differing in coordinates, merge_strategy=merge); delete('k'); reopen"}, "expected": [before, ["g", "k_1", "k_2"]],
                        "observed": [after2, left], "violates": True}
        return {"inputs": {"form": form}, "expected": [exp_ids, sorted(exp_rel)], "observed": [got_ids, sorted(rel1), "bak==pre: %s" % (bak == pre)], "violates": bad}
    finally:
        shutil.rmtree(d, ignore_errors=True)


def unit_add_relation(U):
    for form, pf, cf, dup in (("features", False, False, False), ("ids", False, False, False), ("features", True, True, False), ("features", False, True, False), ("features", False, False, True),
                              ("ids-missing-child", False, False, False), ("ids-missing-parent", False, False, False)):
        it = _it()
        lv = z3.Int("level")

        def run(ctx, form=form, pf=pf, cf=cf, dup=dup):
            par, ch = sfeat("p"), sfeat("c")
            new_p, new_c = sfeat("np"), sfeat("nc")

            def on_execute(cur, q, a):
                if dup and str(q).strip().upper().startswith("INSERT INTO RELATIONS"):
                    raise sqlite3.IntegrityError("UNIQUE constraint failed")
            db = blank_db(ghostdb.GhostConn(on_execute=on_execute))
            looked = []

            def getitem(interp, a, k):
                looked.append(a[1])
                missing = {"ids-missing-child": ch.id, "ids-missing-parent": par.id}.get(form)
                if missing is not None and a[1] is missing:
                    raise gffutils.FeatureNotFoundError(a[1])
                return par if a[1] is par.id else ch
            it.contracts[I.FeatureDB.__getitem__] = getitem
            calls = []

            class Fn(object):
                _pyvc_model = True

                def __init__(self, ret):
                    self.ret = ret

                def __call__(self, a, b):
                    calls.append((self.ret, a, b))
                    return self.ret
            kw = {}
            if pf:
                kw["parent_func"] = Fn(new_p)
            if cf:
                kw["child_func"] = Fn(new_c)
            ctx.stash.update(par=par, ch=ch, new_p=new_p, new_c=new_c, db=db, calls=calls, looked=looked)
            a1, a2 = (par, ch) if form == "features" else (par.id, ch.id)
            return it.call(I.FeatureDB.add_relation, [db, a1, a2, SInt(lv)], kw)

        def replay(m):
            mk = lambda i: F.Feature(seqid="c", featuretype="t", start=1, end=5, attributes={"ID": [i]})
            db = gffutils.create_db([mk("a"), mk("b")], ":memory:")
            db.add_relation("a", "b", 1, child_func=I.assign_child)
            rel = set(tuple(r) for r in db.conn.execute("SELECT parent, child, level FROM relations"))
            try:
                db.add_relation("a", "b", 1)
                dupok = False
            except sqlite3.IntegrityError:
                dupok = True
            rel2 = set(tuple(r) for r in db.conn.execute("SELECT parent, child, level FROM relations"))
            # ids that are not (or no longer) in the database are refused and nothing is stored
            refused = []
            db.delete("b", make_backup=False)
            for a1, a2 in (("a", "b"), ("b", "a"), ("a", "never_there")):
                try:
                    db.add_relation(a1, a2, 1)
                    refused.append("accepted (%s, %s)" % (a1, a2))
                except gffutils.FeatureNotFoundError:
                    refused.append("refused")
            rel3 = set(tuple(r) for r in db.conn.execute("SELECT parent, child, level FROM relations"))
            bad = rel != {("a", "b", 1)} or not dupok or rel2 != rel or refused != ["refused"] * 3 or rel3 != set()
            return {"expected": "{(a,b,1)}, duplicate raises IntegrityError, child rewritten; after delete('b'): add_relation with b or an unknown id raises FeatureNotFoundError and stores nothing",
                    "observed": [sorted(rel), dupok, refused, sorted(rel3)], "violates": bad}
        base = "C10.add_relation[%s,pf=%s,cf=%s,dup=%s]" % (form, pf, cf, dup)
        for p in U.explore(run, it):
            st = p.ctx.stash
            effs = IM.classify(p.ctx.effects)
            stm = [e for e in effs if e.kind in ("insert", "update", "delete")]
            if form.startswith("ids-missing"):
                ok = p.kind == "raise" and isinstance(p.value, gffutils.FeatureNotFoundError) and not stm
                U.prove(base + "#p%d" % p.index, "an id that is not in the database ==> FeatureNotFoundError (from the look-up), nothing written", [], z3.BoolVal(bool(ok)), {}, replay=replay)
                continue
            if form == "ids":
                lk = st["looked"]
                U.prove(base + ".lookup#p%d" % p.index, "ids given as strings are looked up in the database (both of them) before anything is written", [],
                        z3.BoolVal(len(lk) == 2 and any(x is st["par"].id for x in lk) and any(x is st["ch"].id for x in lk)), {}, replay=replay)
            if dup:
                ok = p.kind == "raise" and isinstance(p.value, sqlite3.IntegrityError) and len(stm) == 1 and not [e for e in effs if e.kind == "commit"]
                U.prove(base + "#p%d" % p.index, "an existing triple ==> IntegrityError, nothing else written, no commit", [], z3.BoolVal(bool(ok)), {}, replay=replay)
                continue
            ok = p.kind == "return" and p.value is st["db"] and len(stm) == 1 + int(pf) + int(cf) and stm[0].kind == "insert" and stm[0].table == "relations"
            goal = z3.BoolVal(False)
            if ok:
                try:
                    t, conflict, cols, vals = IM.insert_values(stm[0])
                    row = dict(zip(cols or Q.TABLE_COLS["relations"], vals))
                    goal = z3.And(z3.BoolVal(conflict is None), IM.veq(row["parent"], st["par"].id), IM.veq(row["child"], st["ch"].id), IM.veq(row["level"], SInt(lv)))
                    from props.C05 import _update_is_row
                    ups = stm[1:]
                    want = ([st["new_p"]] if pf else []) + ([st["new_c"]] if cf else [])
                    for e, f in zip(ups, want):
                        goal = z3.And(goal, z3.BoolVal(e.kind == "update" and e.table == "features"), _update_is_row(e, f))
                    kinds = [e.kind for e in effs]
                    goal = z3.And(goal, z3.BoolVal(kinds[-1] == "commit"))
                except (Q.SQLArgs, Q.SQLSyntax, KeyError, Undecided):
                    goal = z3.BoolVal(False)
            U.prove(base + "#p%d" % p.index, "exactly the row (parent.id, child.id, level) is inserted (plain INSERT); each callback's result overwrites exactly its own row (12 columns, WHERE id = its id); commit", p.pc, goal, {"level": lv}, replay=replay)


def unit_update(U):
    for fmt in ("gff3", "gtf", "other"):
        for empty in (False, True):
            for backup in (True, False):
                it = _it()

                def run(ctx, fmt=fmt, empty=empty, backup=backup):
                    db = _file_db()
                    db.dialect = dict(constants.dialect, fmt=fmt)
                    db._autoincrements = collections.defaultdict(int, {"exon": 2})
                    log = []

                    class Data(object):
                        _pyvc_model = True
                        _peek = [] if empty else ["f"]

                    class Creator(object):
                        _pyvc_model = True

                        def __init__(self, name, kw):
                            self.name, self.kw = name, kw
                            self._autoincrements = kw.get("_autoincrements")
                            log.append(("init", name, kw))

                        def _populate_from_lines(self, d):
                            log.append(("populate", d))
                            Ctx.current.effect("populate")

                        def _update_relations(self):
                            log.append(("relations",))

                        def _finalize(self):
                            log.append(("finalize",))
                    data = Data()
                    it.contracts[IT.DataIterator] = lambda interp, a, k: (log.append(("DataIterator", a, k)), data)[1]
                    it.contracts[C._GFFDBCreator] = lambda interp, a, k: Creator("gff", k)
                    it.contracts[C._GTFDBCreator] = lambda interp, a, k: Creator("gtf", k)
                    ctx.stash.update(db=db, log=log, data=data)
                    fmf = ["source", "score"]
                    ctx.stash["fmf"] = fmf
                    return it.call(I.FeatureDB.update, [db, "<src>"], {"make_backup": backup, "merge_strategy": "create_unique", "checklines": 3, "transform": None,
                                                                         "force_merge_fields": fmf, "disable_infer_genes": True, "verbose": False})
                base = "C10.update[%s,%s,backup=%s]" % (fmt, "empty" if empty else "nonempty", backup)
                for p in U.explore(run, it):
                    st = p.ctx.stash
                    log, db = st["log"], st["db"]
                    copies = [e for e in p.ctx.effects if e[0] == "copy2"]
                    okb = (len(copies) == 1 and p.ctx.effects.index(copies[0]) == 0 and copies[0][1:] == ("/ghost/x.db", "/ghost/x.db.bak")) if backup else not copies
                    U.prove(base + ".backup#p%d" % p.index, "make_backup ==> the copy to '<dbfn>.bak' precedes every other effect (so it holds the pre-operation database even if the import fails later)", [], z3.BoolVal(bool(okb)), {})
                    if empty:
                        ok = p.kind == "return" and p.value is db and [l[0] for l in log] == ["DataIterator"]
                        U.prove(base + ".empty#p%d" % p.index, "a source without features ==> returns self, no importer is built, nothing is written", [], z3.BoolVal(bool(ok)), {})
                        continue
                    if fmt == "other":
                        U.prove(base + ".route#p%d" % p.index, "an unknown stored format raises", [], z3.BoolVal(p.kind == "raise" and isinstance(p.value, ValueError)), {})
                        continue
                    names = [l[0] for l in log]
                    ok = p.kind == "return" and p.value is db and names == ["DataIterator", "init", "populate", "relations", "finalize"]
                    if ok:
                        init = log[1]
                        kw = init[2]
                        ok = (init[1] == ("gff" if fmt == "gff3" else "gtf") and kw.get("_autoincrements") is db._autoincrements and kw.get("dbfn") == db.dbfn and kw.get("dialect") is db.dialect
                              and kw.get("data") is st["data"] and kw.get("merge_strategy") == "create_unique" and log[2][1] is st["data"]
                              and kw.get("id_spec") == ("ID" if fmt == "gff3" else {"gene": "gene_id", "transcript": "transcript_id"})
                              and log[0][2] == {"checklines": 3, "transform": None}
                              # every importer option the caller gives reaches the importer (as create_db would pass it)
                              and kw.get("force_merge_fields") is st["fmf"] and kw.get("disable_infer_genes") is True and kw.get("verbose") is False)
                    if not ok:
                        U.notes.append("update log: %r" % ([(l[0], l[1] if len(l) > 1 else None) for l in log],))
                        U.notes.append("kw: %r" % (log[1][2] if len(log) > 1 else None,))
                    U.prove(base + ".route#p%d" % p.index,
                            "the importer class follows the stored dialect's format, works on the open database with the *same* counter map object, gets the default id_spec of the format, the caller's merge_strategy and every other importer option given (force_merge_fields, disable_infer_*, verbose); populate, second-level relations, finalize run in this order",
                            [], z3.BoolVal(bool(ok)), {})

    # _DBCreator.__init__ keeps the counter map it is given (identity) ; _finalize writes it back ; FeatureDB.__init__ reloads it
    it = _it()

    def run2(ctx):
        cnt = collections.defaultdict(int, {"exon": 4})
        it.contracts[IT.DataIterator] = lambda interp, a, k: ("iterator", k)
        conn = ghostdb.GhostConn()
        cr = object.__new__(C._GFFDBCreator)
        it.call(C._DBCreator.__init__, [cr, "<data>", conn], {"_autoincrements": cnt, "id_spec": "ID"})
        cr2 = object.__new__(C._GFFDBCreator)
        it.call(C._DBCreator.__init__, [cr2, "<data>", conn], {"id_spec": "ID"})
        # a database that has handed out no generated key yet passes an EMPTY map: it must be shared all the same,
        # or the numbers its first update consumes are forgotten by the FeatureDB object
        cnt0 = collections.defaultdict(int)
        cr3 = object.__new__(C._GFFDBCreator)
        it.call(C._DBCreator.__init__, [cr3, "<data>", conn], {"_autoincrements": cnt0, "id_spec": "ID"})
        return cr, cr2, cnt, cr3, cnt0

    def replay2(m):
        # two successive updates with id-less features on a database whose features all carried ids
        mk = lambda a, s: F.Feature(seqid="c", featuretype="exon", start=s, end=s + 5, attributes=a)
        res = {}
        for where in (":memory:", "file"):
            d = tempfile.mkdtemp()
            try:
                fn = ":memory:" if where == ":memory:" else os.path.join(d, "x.db")
                db = gffutils.create_db([F.Feature(seqid="c", featuretype="gene", start=1, end=90, attributes={"ID": ["g"]})], fn)
                try:
                    db.update([mk({}, 1), mk({}, 11)], make_backup=False)
                    db.update([mk({}, 21)], make_backup=False)
                    res[where] = sorted(f.id for f in db.all_features())
                except Exception as ex:
                    res[where] = "raised %r" % (ex,)
            finally:
                shutil.rmtree(d, ignore_errors=True)
        exp = ["exon_1", "exon_2", "exon_3", "g"]
        return {"inputs": "create_db([gene ID=g]); update([exon, exon]); update([exon])  (no ID attributes on the exons)", "expected": exp, "observed": res, "violates": any(v != exp for v in res.values())}
    for p in U.explore(run2, it):
        ok = (p.kind == "return" and p.value[0]._autoincrements is p.value[2] and isinstance(p.value[1]._autoincrements, collections.defaultdict) and len(p.value[1]._autoincrements) == 0
              and p.value[3]._autoincrements is p.value[4])
        U.prove("C10.init.counters#p%d" % p.index, "'_autoincrements' given (even an empty map) ==> the creator uses that very object (numbering continues); otherwise a fresh empty counter map", [], z3.BoolVal(bool(ok)), {}, replay=replay2)

    def run3(ctx):
        conn = ghostdb.GhostConn()
        cnt = collections.defaultdict(int, {"exon": 4, "gene": 1})
        dirs = ["d1", "d2"]
        cr = IM.blank_creator(C._GFFDBCreator, conn, counters=cnt, directives=dirs)
        it.call(C._DBCreator._finalize, [cr], {})
        return cr, cnt, dirs
    for p in U.explore(run3, it):
        ok = p.kind == "return"
        if ok:
            effs = IM.classify(p.ctx.effects)
            ins = [e for e in effs if e.kind == "insert"]
            byt = {e.table: e for e in ins}
            ok = (set(byt) == {"directives", "meta", "autoincrements"} and byt["autoincrements"].how == "executemany" and sorted(byt["autoincrements"].args) == [("exon", 4), ("gene", 1)]
                  and IM.insert_info(byt["autoincrements"].stmt.node)[1] == "REPLACE"
                  and [tuple(r) for r in byt["directives"].args] == [("d1",), ("d2",)]
                  and isinstance(byt["meta"].args, dict) and byt["meta"].args.get("version") == version.version and isinstance(byt["meta"].args.get("dialect"), IM.OpaqueJSON)
                  and byt["meta"].args["dialect"].of is p.value[0].iterator.dialect
                  and [e.kind for e in effs].count("commit") >= 1 and not [e for e in effs if e.kind in ("update", "delete")])
        U.prove("C10.finalize.writeback#p%d" % p.index, "_finalize writes every counter (INSERT OR REPLACE INTO autoincrements), the directives in order and (version, dialect JSON) to meta, then commits", [], z3.BoolVal(bool(ok)), {},
                replay=_replay_writeback)

    def run4(ctx):
        rows = {"meta": [ghostdb.GhostRow(["version", "dialect"], ["0.x", IM.OpaqueJSON({"fmt": "gff3"})])],
                "directives": [ghostdb.GhostRow(["directive"], ["d1"]), ghostdb.GhostRow(["directive"], ["d2"])],
                "autoincrements": [ghostdb.GhostRow(["base", "n"], ["exon", 4]), ghostdb.GhostRow(["base", "n"], ["gene", 1])]}

        def result_for(cur, kind, q, a):
            n = " ".join(str(q).split()).upper()
            for t in rows:
                if "FROM " + t.upper() in n:
                    return rows[t]
            return []
        conn = ghostdb.GhostConn(result_for=result_for)
        conn.__class__ = type("Conn", (ghostdb.GhostConn, ), {})
        it.contracts[H._unjsonify] = lambda interp, a, k: a[0].of
        import builtins
        base_isinstance = it.models.table[builtins.isinstance]
        it.models.table[builtins.isinstance] = lambda x, c: True if (x is conn and c is sqlite3.Connection) else base_isinstance(x, c)
        db = object.__new__(I.FeatureDB)
        it.call(I.FeatureDB.__init__, [db, conn], {})
        return db
    for p in U.explore(run4, it):
        ok = p.kind == "return"
        if ok:
            db = p.value
            sel = [e for e in IM.classify(p.ctx.effects) if e.kind == "select" and e.table in ("autoincrements", "directives", "meta")]
            plain = len(sel) == 3 and all(Q.select_info(e.stmt.node).where is None and not Q.select_info(e.stmt.node).joins for e in sel) and \
                Q.select_cols(Q.select_info([e for e in sel if e.table == "autoincrements"][0].stmt.node)) == ["base", "n"]
            ok = (plain and isinstance(db._autoincrements, collections.defaultdict) and dict(db._autoincrements) == {"exon": 4, "gene": 1} and db._autoincrements["never"] == 0
                  and db.directives == ["d1", "d2"] and db.dialect == {"fmt": "gff3"} and db.version == "0.x"
                  and not [e for e in IM.classify(p.ctx.effects) if e.kind in ("insert", "update", "delete")])
        U.prove("C10.reopen.state#p%d" % p.index, "opening a database reloads ALL persisted counters (unrestricted scan of autoincrements; missing base -> 0), the directives in order and the dialect, and writes nothing", [], z3.BoolVal(bool(ok)), {})

    # lemma: ids never recycle - counters only grow, and are shared / persisted / reloaded
    n0, k = z3.Int("n0"), z3.Int("k")
    U.prove("C10.lemma.no_recycle", "a later generated suffix is larger than every earlier one for the same base: n0 + j + 1 > n0 + i + 1 for j > i >= 0 (counter clause C04.autoid + identity + write-back + reload)",
            [k >= 0], n0 + k + 1 + 1 > n0 + k + 1, {}, kind="lemma")


def unit_levels(U):
    """second-level relations added by update() are compositions of two level-1 edges"""
    def replay_deep(m=None):
        mk = lambda i, par=None: F.Feature(seqid="c", featuretype="t", start=1, end=5, attributes=dict({"ID": [i]}, **({"Parent": par} if par else {})))
        db = gffutils.create_db([mk("a"), mk("b", ["a"]), mk("c", ["b"])], ":memory:")
        db.update([mk("d", ["c"])], make_backup=False)
        rel = set(tuple(r) for r in db.conn.execute("SELECT parent, child, level FROM relations"))
        exp = {("a", "b", 1), ("b", "c", 1), ("c", "d", 1), ("a", "c", 2), ("b", "d", 2)}
        return {"inputs": "create_db(a <- b <- c) then update(d with Parent=c)", "expected": sorted(exp), "observed": sorted(rel), "violates": rel != exp}
    IM.unit_gff_finish.__globals__["_c10_replay"] = replay_deep
    # run the shared finish unit without the 'only level-1 rows' hypothesis
    before = len(U.results)
    IM.unit_gff_finish(U, prefix="C10", only_level1=False)
    for r in U.results[before:]:
        if r.status == "failed" and (r.replay is None or not r.replay.get("violates")):
            r.replay = replay_deep()


def unit_bounded_delete_then_merge(U):
    """bounded history: create g1 <- m1 <- e1; delete(g1); update([m1 without Parent], merge_strategy='merge'): the deleted
    parent's link does not come back and the newcomer is not rewritten (shared with C05)"""
    from props import C05
    r = C05.native_delete_then_merge()
    U.bounded_result("C10.bounded.delete_then_merge", "after delete(parent) a merging update of the child re-creates no relation to the deleted parent",
                     "one history on a file database", 1, [] if not r.get("violates") else [{"case": r.get("inputs"), "expected": r.get("expected"), "observed": r.get("observed")}], distinct=1)


def unit_schema(U):
    """what is written is what is read back: the tables are plain text / integer stores (checked on the real SCHEMA)"""
    from contracts import importer as IM_
    IM_.prove_plain_schema(U, "C10", ['features', 'relations', 'autoincrements', 'duplicates', 'meta', 'directives'])


def unit_writers_no_commit(U):
    """'update adds or merges ...; a failed operation leaves the modelled content': the statement-level writers of the
    importer (_DBCreator._insert / _replace, used by both importers and by the GTF inference pass) issue their one statement
    and NEVER commit - the only commit of an import or update is _finalize's - whatever the importer object has done before
    (its integer bookkeeping is an arbitrary non-negative number: behaviour that starts at the n-th row is on some path)"""
    import gffutils.bins as B_
    from contracts.common import bins_contract as _bc
    for name, fn in (("_insert", C._DBCreator._insert), ("_replace", C._DBCreator._replace)):
        it = _it()
        it.contracts[B_.bins] = _bc

        def run(ctx, fn=fn):
            conn = ghostdb.GhostConn()
            cr = IM.blank_creator(C._GFFDBCreator, conn)
            f = sfeat("f")
            it.call(fn, [cr, f, conn.cursor()], {})

        def replay(m):
            import tempfile, os, shutil
            d = tempfile.mkdtemp()
            try:
                mk = lambda i: F.Feature(seqid="c", source="s", featuretype="exon", start=10 * i + 1, end=10 * i + 5, strand="+", attributes={"ID": ["e%d" % i]})

                def src(n, stop):
                    for i in range(1, n):
                        if i == stop:
                            raise RuntimeError("source fault")
                        yield mk(i)
                out = {}
                for stop in (3, 1001, 1500, 2600):
                    path = os.path.join(d, "x%d.db" % stop)
                    gffutils.create_db([mk(0)], path).conn.close()
                    db = gffutils.FeatureDB(path)
                    try:
                        db.update(src(3000, stop))
                    except RuntimeError:
                        pass
                    db.conn.close()
                    import sqlite3
                    c = sqlite3.connect(path)
                    out[stop] = c.execute("SELECT COUNT(*) FROM features").fetchone()[0]
                    c.close()
                return {"inputs": "file database with 1 feature; update() from a source that raises after 2 / 1000 / 1499 / 2599 features; reopened", "expected": {k: 1 for k in out}, "observed": out,
                        "violates": any(v != 1 for v in out.values())}
            finally:
                shutil.rmtree(d, ignore_errors=True)
        for p in U.explore(run, it):
            if p.kind != "return":
                U.prove("C10.writers.no_commit[%s].noraise#p%d" % (name, p.index), "writing a row raises nothing (got %r)" % (p.value,), p.pc, z3.BoolVal(False), {}, replay=replay)
                continue
            effs = IM.classify(p.ctx.effects)
            commits = [e for e in effs if e.kind == "commit"]
            writes = [e for e in effs if e.kind in ("insert", "update", "delete", "replace", "script", "ddl")]
            U.prove("C10.writers.no_commit[%s]#p%d" % (name, p.index), "the writer issues exactly one statement (on features) and does not commit, whatever the importer did before", p.pc,
                    z3.BoolVal(not commits and len(writes) == 1 and writes[0].table == "features"), {}, replay=replay)


UNITS = [("writers.no_commit", unit_writers_no_commit), ("schema", unit_schema), ("bounded.delete_then_merge", unit_bounded_delete_then_merge), ("delete", unit_delete), ("add_relation", unit_add_relation), ("update", unit_update), ("levels", unit_levels)]
try:
    from standins import C10 as _S
    UNITS = UNITS + list(_S.UNITS)
except ImportError:
    pass


def replay_file(doc):
    return {"error": "re-run ./check C10 to regenerate and replay this obligation", "violates": None, "stored": doc.get("inputs")}
