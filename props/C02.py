"""C02 - GFF3 hierarchy: children/parents are exactly the Parent graph, two levels deep."""
import itertools
import z3

import gffutils
import gffutils.bins as B
import gffutils.helpers as H
import gffutils.interface as I
import gffutils.create as C
import gffutils.feature as F
from gffutils import constants

from pyvc.core import SInt, SStr, Val, Lit, Undecided
from pyvc.interp import Interp
from pyvc import ghostdb, sqlmodel as Q
from pyvc.harness import model_of, ev
from contracts.common import bins_contract, blank_feature
from contracts import spec_query as SQ
from contracts.qharness import (Const, Str, Int, Tup, all_vars, sym_kwargs, nat_kwargs, constraints, blank_db, Renamer,
                                native_db, feature_from_model)
from contracts import importer as IM
from props.C06 import _native_selected, _eqc, ft_shapes, _spec_ft

LEVEL = "proof"
EXPLANATION = ("Query side: children/parents (through _relation, make_query and the SELECT -> SELECT DISTINCT rewrite) are executed "
               "symbolically for level None/int x featuretype x order_by x reverse; the JOIN/WHERE text is proved to select exactly "
               "{f | (x, f.id, l) in relations} (converse for parents), each feature once.  Import side: the loop body of "
               "_GFFDBCreator._populate_from_lines is executed for an arbitrary feature on an arbitrary database state and proved to add "
               "exactly {(p, key, 1) | p in Parent(f)} (loop over the Parent values by the accumulation rule, any number of parents, "
               "dangling parents included); _update_relations is proved to add exactly {(a, c, 2) | a in ids, exists b: (a,b,.) and "
               "(b,c,.) in relations} (nested IN (SELECT ...) translated; temp file modelled as a line sequence).  The statement "
               "follows as a lemma over these contracts (relations is a set, steps only add).  All DAGs on <= 4 nodes x all line "
               "orders through the real create_db are a bounded validation of the assumptions.")
TRUSTED = ["T3 SQL model pyvc/sqlmodel.py", "contracts/spec_query.py", "contracts/importer.py (ghost database, accumulation rule for cursor loops)"]
ASSUMPTIONS = ["A-S1 sqlite3 semantics of the modelled subset (INSERT OR IGNORE = set insertion on the PRIMARY KEY read from the real SCHEMA)",
               "text-mode temp file returns the written lines (A-P)", "constants.always_return_list is True during import (A-G)"]
PRECONDITIONS = ["unique ids (no key collision; collisions are C05)", "ids without white space / tab / newline", "acyclic Parent graph (for 'x never its own relative')"]
FUNCTIONS = ["gffutils.interface:FeatureDB._relation", "gffutils.interface:FeatureDB.children", "gffutils.interface:FeatureDB.parents",
             "gffutils.interface:FeatureDB.iter_by_parent_childs", "gffutils.helpers:make_query",
             "gffutils.create:_GFFDBCreator._populate_from_lines", "gffutils.create:_GFFDBCreator._update_relations"]


def _interp():
    it = Interp()
    it.contracts[B.bins] = bins_contract
    return it


def unit_query(U):
    orders = [None, "start", ("seqid", "start")]
    for entry in ("children", "parents"):
        for lvn, (fn, ft), ob, rev, xform in itertools.product(("none", "int"), ft_shapes(), orders, (False, True), ("id", "feature")):
            if not U.thorough and (ob is not None or rev) and (fn not in ("none", "str") or lvn == "none"):
                continue
            if not U.thorough and xform == "feature" and (fn != "none" or ob is not None or rev):
                continue
            if rev and ob is None:
                continue
            it = _interp()
            frow, rrow, rvars = SQ.sym_feature_and_relation()
            x = Str("x")
            lv = Int("L") if lvn == "int" else None
            kw = {"level": lv, "featuretype": ft, "order_by": ob, "reverse": rev, "id": x}
            vars_ = dict(rvars)
            vars_.update(all_vars(kw))
            cons = constraints(kw)

            def run(ctx, entry=entry, kw=kw, cons=cons, xform=xform):
                for c in cons:
                    ctx.assume(c)
                db = blank_db()
                skw = sym_kwargs(kw)
                xx = skw.pop("id")
                if xform == "feature":
                    # a Feature with coordinates of its own (they play no part in who its relatives are)
                    xx = blank_feature(id=xx, seqid=SStr([Val(z3.String("x.seqid"), nonempty=True)]), start=SInt(z3.Int("x.start")), end=SInt(z3.Int("x.end")))
                list(it.call(getattr(I.FeatureDB, entry), [db, xx], skw))
            base = "C02.query.%s[level=%s,ft=%s,order=%s,rev=%s,x=%s]" % (entry, lvn, fn, "none" if ob is None else ("str" if isinstance(ob, str) else "tuple"), rev, xform)
            spec = z3.And(SQ.relation_ok(frow, rrow, x.z, lv.z if lv is not None else None, entry), SQ.type_ok(frow, _spec_ft(ft)))
            for p in U.explore(run, it):
                def replay(m, entry=entry, kw=kw):
                    try:
                        f, nkw, ids = _native_selected(entry, {k: v for k, v in kw.items()}, m)
                    except Exception as e:
                        return {"inputs": m, "observed": "raised %r" % (e,), "violates": True}
                    sm = model_of([_eqc(v, m[k]) for k, v in vars_.items() if k in m])
                    exp = bool(ev(sm, spec)) if sm is not None else None
                    obs = ids.count(f.id)
                    return {"inputs": {"row": {k: v for k, v in m.items() if k.startswith(("f.", "r."))}, "call": "%s(%r)" % (entry, nkw)},
                            "expected": "row returned %s" % ("once" if exp else "never"), "observed": "returned %d times" % obs,
                            "violates": exp is not None and obs != (1 if exp else 0)}
                if p.kind != "return":
                    U.prove(base + ".noraise#p%d" % p.index, "raises nothing (got %r)" % (p.value,), p.pc, z3.BoolVal(False), vars_, replay=replay)
                    continue
                ex = ghostdb.executes(p.ctx)
                if len(ex) != 1:
                    raise Undecided(base + ": expected one statement")
                try:
                    sel = SQ.Selected(ex[0][1], ex[0][2], frow, rrow)
                except (Q.SQLArgs, Q.SQLSyntax) as e:
                    U.prove(base + ".lockstep#p%d" % p.index, "placeholders and arguments in lock-step / valid SQL (%s)" % e, p.pc, z3.BoolVal(False), vars_, replay=replay)
                    continue
                U.prove(base + ".where#p%d" % p.index,
                        "(f, r) matched <==> r relates x to f (%s), level clause iff level is not None, type-match" % ("r.parent == x and r.child == f.id" if entry == "children" else "r.child == x and r.parent == f.id"),
                        list(p.pc), z3.And(sel.cond == spec, z3.BoolVal(sel.joined)), vars_, replay=replay)
                U.prove(base + ".distinct#p%d" % p.index, "each feature returned once (SELECT DISTINCT over the join)", [], z3.BoolVal(sel.distinct), {}, replay=replay)
                U.prove(base + ".columns#p%d" % p.index, "projected columns are the Feature columns + rowid as file_order", [], z3.BoolVal(sel.columns == SQ.SELECT_COLUMNS), {})

    # iter_by_parent_childs: [parent] + children(parent.id) for every feature of the type
    it = _interp()

    def run2(ctx):
        prow, pv = ghostdb.feature_row(ctx, "p")
        state = {"n": 0}

        def result_for(cur, kind, q, a):
            state["n"] += 1
            return [prow] if state["n"] == 1 else []
        db = blank_db(ghostdb.GhostConn(result_for=result_for))
        it.contracts[H._unjsonify] = lambda interp, a, k: IM.OpaqueJSON(a[0])
        out = list(it.call(I.FeatureDB.iter_by_parent_childs, [db], {"featuretype": "gene"}))
        return out, prow
    frow, rrow, rvars = SQ.sym_feature_and_relation()
    for p in U.explore(run2, it):
        ok, goal = False, z3.BoolVal(False)
        if p.kind == "return":
            out, prow = p.value
            ex = ghostdb.executes(p.ctx)
            ok = len(out) == 1 and len(out[0]) == 1 and len(ex) == 2
            if ok:
                # the second statement is the children query of THAT parent: matched <==> r.parent == parent.id and r.child == f.id
                # (whatever the spelling of the join); parse errors are engine signals (undecided)
                sel = SQ.Selected(ex[1][1], ex[1][2], frow, rrow)
                goal = z3.And(z3.BoolVal(sel.joined), sel.cond == SQ.relation_ok(frow, rrow, IM.zs(prow["id"]), None, "children"))
        U.prove("C02.iter_by_parent_childs#p%d" % p.index, "yields [parent] + list(children(parent.id)) for each feature of the requested type", list(p.pc), z3.And(z3.BoolVal(ok), goal), rvars)


def unit_parse_parents(U):
    """text -> Parent list: both GFF3 spellings of a feature with several parents (`Parent=a,b` and `Parent=a;Parent=b`)
    give the Parent list [a, b] under EVERY key=value dialect a file can have been given (whatever its field separator,
    trailing semicolon and repeated-keys flag, which are fixed by OTHER lines of the file).  This is the link between the
    file and the `f.attributes['Parent']` the import-step contract starts from."""
    import gffutils.parser as P
    from contracts import attrspec as A
    ws = frozenset(" \t\n\r\x0b\x0c")
    reserved = frozenset(";=,%&\"") | frozenset(chr(c) for c in range(33)) | {chr(127)}
    for dname, D in A.dialects():
        if not dname.startswith("k=v|"):
            continue
        for spelling in ("comma", "repeated"):
            it = Interp()
            A.install(it)
            holes = [Val(z3.String(n), nonempty=True, excl=reserved, tag="value") for n in ("x", "a", "b")]

            def run(ctx, D=D, spelling=spelling, holes=holes):
                for h in holes:
                    for c in h.light_constraints():
                        ctx.assume(c)
                x, a, b = holes
                sep = D["field separator"]
                if spelling == "comma":
                    atoms = [Lit("ID="), x, Lit(sep + "Parent="), a, Lit(","), b]
                else:
                    atoms = [Lit("ID="), x, Lit(sep + "Parent="), a, Lit(sep + "Parent="), b]
                if D["trailing semicolon"]:
                    atoms.append(Lit(";"))
                d = dict(D)
                d["order"] = ["ID", "Parent"]
                return it.call(P._split_keyvals, [SStr(atoms), d], {})
            base = "C02.parse.parents[%s,%s]" % (dname, spelling)

            def replay(m, D=D, spelling=spelling):
                sep = D["field separator"]
                bad = []
                for (a, b) in (("m1", "m2"), ("t.1", "t-2"), ("p", "p2")):
                    txt = "ID=x%sParent=%s" % (sep, (a + "," + b) if spelling == "comma" else (a + sep + "Parent=" + b)) + (";" if D["trailing semicolon"] else "")
                    line = "c\t.\texon\t1\t2\t.\t+\t.\t" + txt
                    got = list(F.feature_from_line(line, dialect=dict(D)).attributes.get("Parent", []))
                    if got != [a, b]:
                        bad.append({"attributes": txt, "dialect": {k: D[k] for k in ("field separator", "trailing semicolon", "repeated keys")}, "Parent parsed": got, "expected": [a, b]})
                return {"inputs": {"dialect": dname, "spelling": spelling}, "observed": bad[:2], "violates": bool(bad)}
            for p in U.explore(run, it):
                if p.kind != "return":
                    U.prove(base + ".noraise#p%d" % p.index, "parsing raises nothing (got %r)" % (p.value,), p.pc, z3.BoolVal(False), {}, replay=replay)
                    continue
                q, d2 = p.value
                ok = A.same_items(q, [("ID", [holes[0]]), ("Parent", [holes[1], holes[2]])])
                U.prove(base + ".values#p%d" % p.index, "the Parent list parsed is [a, b] (ids free of reserved characters), the ID list [x]", [], z3.BoolVal(bool(ok)), {}, replay=replay)


def unit_bounded_text(U):
    """Bounded: the same graphs as C02.bounded.dags but through GFF3 TEXT (create_db(..., from_string=True)), in the spellings
    a file may mix: comma lists, repeated Parent keys, and comma-list parents in a file whose other lines repeat keys (so that
    the file's dialect says 'repeated keys'), for every line order of the small graphs and checklines 10 / 1."""
    import itertools as _it
    fails, cases = [], 0
    graphs = [(3, [(1, 0), (2, 0), (2, 1)]), (4, [(2, 0), (2, 1), (3, 2)]), (4, [(1, 0), (2, 0), (3, 1), (3, 2)]), (3, [(2, 0), (2, 1)])]
    for n, edges in graphs:
        perms = list(_it.permutations(range(n)))
        if not U.thorough:
            perms = perms[::3] + [perms[-1]]
        for perm in perms:
            for spelling, checklines in _it.product(("comma", "repeated", "mixed"), (10, 1)):
                lines, feats = [], []
                if spelling == "mixed":
                    # two leading lines that repeat a key: the dialect chosen for the file has 'repeated keys'
                    lines += ["c\t.\tregion\t1\t99\t.\t+\t.\tID=r%d;Dbxref=A:1;Dbxref=B:2;Dbxref=C:3" % i for i in (1, 2)]
                for k in perm:
                    ps = ["n%d" % p for (c, p) in edges if c == k] + (["nowhere"] if k == n - 1 else [])
                    a = "ID=n%d" % k
                    if ps:
                        a += (";Parent=" + ",".join(ps)) if spelling in ("comma", "mixed") else "".join(";Parent=" + q for q in ps)
                    lines.append("c\t.\tt%d\t%d\t%d\t.\t+\t.\t%s" % (k, k + 1, k + 5, a))
                    att = {"ID": ["n%d" % k]}
                    if ps:
                        att["Parent"] = ps
                    feats.append(F.Feature(seqid="c", featuretype="t%d" % k, start=k + 1, end=k + 5, attributes=att))
                cases += 1
                # the last line with and without its line terminator (alternating), CRLF now and then
                text = "\n".join(lines) + ("\n" if cases % 2 else "")
                if cases % 5 == 0:
                    text = text.replace("\n", "\r\n")
                try:
                    db = gffutils.create_db(text, ":memory:", from_string=True, checklines=checklines)
                    rel = {(r["parent"], r["child"], r["level"]) for r in db.execute("SELECT parent, child, level FROM relations")}
                    exp = IM.expected_gff3_relations(feats)
                    bad = None
                    if rel != exp:
                        bad = "relations %r" % sorted(rel)
                    for x in ["n%d" % k for k in range(n)]:
                        for lv in (1, 2, None):
                            ch = sorted(f.id for f in db.children(x, level=lv))
                            ech = sorted({c for (p_, c, l) in exp if p_ == x and (lv is None or l == lv) and c.startswith("n")})
                            if ch != ech:
                                bad = "children(%s, level=%r) = %r, expected %r" % (x, lv, ch, ech)
                    if bad:
                        fails.append({"case": {"text": text, "checklines": checklines}, "expected": sorted(exp), "observed": bad})
                except Exception as e:
                    fails.append({"case": {"text": text, "checklines": checklines}, "expected": "no exception", "observed": repr(e)})
    U.bounded_result("C02.bounded.text", "GFF3 text in either spelling of several parents (and mixtures) gives the Parent graph, in every line order",
                     "4 multi-parent graphs x line permutations x {comma list, repeated Parent keys, comma lists in a file whose dialect has repeated keys} x checklines {10, 1}; last line with / without terminator, LF / CRLF", cases, fails)


def unit_schema(U):
    """standing assumption of the SQL model, checked on the real SCHEMA: plain text/int columns, exact text comparison"""
    from contracts import importer as IM_
    IM_.prove_plain_schema(U, "C02", ['features', 'relations'])


def unit_bounded_after_abort(U):
    """Bounded: an import is independent of the imports before it in the same process - in particular of one that was ABORTED
    half-way (a duplicate ID under merge_strategy='error', a malformed line): the corrected file, imported next, gives exactly
    its own Parent graph"""
    fails, cases = [], 0
    mk = lambda i, t, par=None: F.Feature(seqid="c", source="s", featuretype=t, start=1, end=9, strand="+", attributes=dict({"ID": [i]}, **({"Parent": par} if par else {})))
    bad = [mk("g1", "gene"), mk("m1", "mRNA", ["g1"]), mk("e1", "exon", ["m1"]), mk("e3", "exon", ["m1", "g1"]), mk("m1", "mRNA", ["g1"])]      # duplicate m1 -> aborts
    good = [mk("g1", "gene"), mk("m2", "mRNA", ["g1"]), mk("e2", "exon", ["m2"])]
    for via in ("create_db", "update"):
        for target in (":memory:", "file"):
            cases += 1
            import tempfile, os, shutil
            d = tempfile.mkdtemp()
            try:
                try:
                    gffutils.create_db([IM._copyf(f) for f in bad], ":memory:")
                    aborted = False
                except Exception:
                    aborted = True
                dbfn = ":memory:" if target == ":memory:" else os.path.join(d, "x.db")
                if via == "create_db":
                    db = gffutils.create_db([IM._copyf(f) for f in good], dbfn)
                else:
                    db = gffutils.create_db([IM._copyf(good[0])], dbfn)
                    db.update([IM._copyf(f) for f in good[1:]], make_backup=False)
                rel = {(r["parent"], r["child"], r["level"]) for r in db.execute("SELECT parent, child, level FROM relations")}
                exp = IM.expected_gff3_relations(good)
                if not aborted or rel != exp:
                    fails.append({"case": {"first (aborted) import": [str(f) for f in bad], "then %s" % via: [str(f) for f in good]}, "expected": sorted(exp), "observed": sorted(rel) if aborted else "the first import did not abort"})
            except Exception as e:
                fails.append({"case": {"via": via, "target": target}, "expected": "no exception", "observed": repr(e)})
            finally:
                shutil.rmtree(d, ignore_errors=True)
    U.bounded_result("C02.bounded.after_abort", "the Parent graph of an import that follows an aborted import in the same process is its own", "create_db / update x memory / file", cases, fails)

def unit_bounded_nested_walk(U):
    """Bounded: walking the hierarchy with nested generators (for c in children(x): for gc in children(c): ...; same for
    parents) sees the same relatives as one call at a time"""
    fails, cases = [], 0
    mk = lambda i, t, par=None: F.Feature(seqid="c", source="s", featuretype=t, start=1, end=9, strand="+", attributes=dict({"ID": [i]}, **({"Parent": par} if par else {})))
    feats = [mk("g1", "gene")] + [mk("m%d" % i, "mRNA", ["g1"]) for i in (1, 2, 3)] + [mk("e%d%d" % (i, j), "exon", ["m%d" % i]) for i in (1, 2, 3) for j in (1, 2)] + [mk("s", "exon", ["m1", "m2"])]
    db = gffutils.create_db(feats, ":memory:")
    exp = IM.expected_gff3_relations(feats)
    cases += 1
    seen1, seen2 = [], set()
    for c in db.children("g1", level=1):
        seen1.append(c.id)
        for gc in db.children(c, level=1):
            seen2.add(gc.id)
    w1 = sorted(ch for (p, ch, l) in exp if p == "g1" and l == 1)
    w2 = sorted({ch for (p, ch, l) in exp if p == "g1" and l == 2})
    if sorted(seen1) != w1 or sorted(seen2) != w2:
        fails.append({"case": "for c in children('g1', level=1): for gc in children(c, level=1)", "expected": [w1, w2], "observed": [sorted(seen1), sorted(seen2)]})
    cases += 1
    up1, up2 = [], set()
    for p_ in db.parents("s", level=1):
        up1.append(p_.id)
        for gp in db.parents(p_, level=1):
            up2.add(gp.id)
    if sorted(up1) != ["m1", "m2"] or sorted(up2) != ["g1"]:
        fails.append({"case": "for p in parents('s', level=1): for gp in parents(p, level=1)", "expected": [["m1", "m2"], ["g1"]], "observed": [sorted(up1), sorted(up2)]})
    U.bounded_result("C02.bounded.nested_walk", "nested generator walks over children / parents == the Parent graph", "1 gene, 3 mRNAs, 7 exons (one shared)", cases, fails)

def unit_bounded_split_histories(U):
    """Bounded: the Parent graph of a database filled in SEVERAL steps (create_db, then one or two update() calls) is the Parent
    graph of everything stored so far - whichever step brings the parents, the middle features or the leaves (a chain of four
    ranks and a two-parent diamond; every assignment of the features to the steps; file / memory)"""
    import itertools as _it, tempfile, os, shutil
    fails, cases = [], 0
    mk = lambda i, t, par=None: F.Feature(seqid="c", source="s", featuretype=t, start=1, end=9, strand="+", attributes=dict({"ID": [i]}, **({"Parent": par} if par else {})))
    graphs = {"chain": [mk("g", "gene"), mk("m", "mRNA", ["g"]), mk("e", "exon", ["m"]), mk("c", "part", ["e"])],
              "diamond": [mk("g", "gene"), mk("m1", "mRNA", ["g"]), mk("m2", "mRNA", ["g"]), mk("e", "exon", ["m1", "m2"])]}
    d = tempfile.mkdtemp()
    try:
        for gname, feats in sorted(graphs.items()):
            n = len(feats)
            for steps in (2, 3):
                assigns = [a for a in _it.product(range(steps), repeat=n) if set(a) == set(range(steps))]
                if not U.thorough:
                    assigns = assigns[::2] + [assigns[-1]]
                for a in assigns:
                    for target in ((":memory:", "file") if U.thorough else (":memory:",)):
                        cases += 1
                        dbfn = ":memory:" if target == ":memory:" else os.path.join(d, "h%d.db" % cases)
                        stored = []
                        try:
                            db = None
                            for st in range(steps):
                                part = [feats[i] for i in range(n) if a[i] == st]
                                stored += part
                                if db is None:
                                    db = gffutils.create_db([IM._copyf(f) for f in part], dbfn)
                                else:
                                    db.update([IM._copyf(f) for f in part], make_backup=False)
                                rel = {(r["parent"], r["child"], r["level"]) for r in db.execute("SELECT parent, child, level FROM relations")}
                                exp = IM.expected_gff3_relations(stored)
                                bad = None
                                if rel != exp:
                                    bad = "relations %r" % sorted(rel)
                                else:
                                    ids = {f.attributes["ID"][0] for f in stored}
                                    for x in sorted(ids):
                                        for lv in (1, 2, None):
                                            ch = sorted(f.id for f in db.children(x, level=lv))
                                            ech = sorted({c for (p_, c, l) in exp if p_ == x and (lv is None or l == lv) and c in ids})
                                            pa = sorted(f.id for f in db.parents(x, level=lv))
                                            epa = sorted({p_ for (p_, c, l) in exp if c == x and (lv is None or l == lv) and p_ in ids})
                                            if ch != ech or pa != epa:
                                                bad = "children / parents (%s, level=%r) = %r / %r, expected %r / %r" % (x, lv, ch, pa, ech, epa)
                                if bad:
                                    fails.append({"case": {"graph": gname, "step of each feature": dict(zip([f.attributes["ID"][0] for f in feats], a)), "after step": st, "target": target},
                                                  "expected": sorted(exp), "observed": bad})
                                    break
                        except Exception as e:
                            fails.append({"case": {"graph": gname, "steps": list(a), "target": target}, "expected": "no exception", "observed": repr(e)})
    finally:
        shutil.rmtree(d, ignore_errors=True)
    U.bounded_result("C02.bounded.split_histories", "the Parent graph after every step of create_db + update()s is that of the features stored so far",
                     "4-rank chain and 2-parent diamond x every assignment of the features to 2 / 3 steps x memory / file", cases, fails)

def unit_bounded_many(U):
    """Bounded: the Parent graph of a LARGE file (1200 features; genes, mRNAs and exons interleaved so that every kind of
    feature sits on the 500th and 1000th line in one of the three rotations) - batch or block boundaries of the importer"""
    fails, cases = [], 0
    mk = lambda i, t, par=None: F.Feature(seqid="c", source="s", featuretype=t, start=1, end=9, strand="+", attributes=dict({"ID": [i]}, **({"Parent": par} if par else {})))
    for rot in (0, 1, 2):
        feats = [mk("pad%d" % i, "region") for i in range(rot)]
        g = 0
        while len(feats) < 1200:
            g += 1
            feats += [mk("g%d" % g, "gene"), mk("m%d" % g, "mRNA", ["g%d" % g]), mk("e%d" % g, "exon", ["m%d" % g])]
        cases += 1
        try:
            db = gffutils.create_db([IM._copyf(f) for f in feats], ":memory:")
            rel = {(r["parent"], r["child"], r["level"]) for r in db.execute("SELECT parent, child, level FROM relations")}
            exp = set()
            for k in range(1, g + 1):
                exp |= {("g%d" % k, "m%d" % k, 1), ("m%d" % k, "e%d" % k, 1), ("g%d" % k, "e%d" % k, 2)}
            if rel != exp:
                miss, extra = sorted(exp - rel)[:5], sorted(rel - exp)[:5]
                fails.append({"case": {"features": len(feats), "line 500 / 1000": [str(feats[499]), str(feats[999])]}, "expected": "%d relations" % len(exp), "observed": {"missing": miss, "unexpected": extra}})
        except Exception as e:
            fails.append({"case": {"features": len(feats)}, "expected": "no exception", "observed": repr(e)})
    U.bounded_result("C02.bounded.many_features", "relations of a 1200-feature file == its Parent graph, whatever feature sits on line 500 / 1000", "3 rotations of gene / mRNA / exon triples", cases, fails)

UNITS = [("bounded.many", unit_bounded_many), ("bounded.split_histories", unit_bounded_split_histories), ("bounded.nested_walk", unit_bounded_nested_walk), ("bounded.after_abort", unit_bounded_after_abort), ("schema", unit_schema), ("query", unit_query)] + IM.c02_units() + [("parse.parents", unit_parse_parents), ("bounded.text", unit_bounded_text)]


def replay_file(doc):
    return {"error": "re-run ./check C02 to regenerate and replay this obligation", "violates": None, "stored": doc.get("inputs")}
