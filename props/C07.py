"""C07 - parsing a line and printing it reproduces the line in every consistent dialect."""
import itertools
import z3

import gffutils
import gffutils.parser as P
import gffutils.feature as F
from gffutils import constants
from gffutils.attributes import Attributes

from pyvc.core import SInt, SStr, Val, Lit, IntLit, Pct, Undecided, Ctx, mkstr
from pyvc.interp import Interp
from pyvc.models import _struct_eq, _WS
from contracts import attrspec as A

LEVEL = "other"
EXPLANATION = ("PROVED for all attribute *contents* (strings with holes; z3 only for residual branch conditions), bounded in *shape*: for each "
               "of the 48 consistent dialects (3 field separators x trailing semicolon x 4 key/value styles x comma lists / repeated "
               "keys) and every shape of <= 3 attributes x <= 3 values incl. valueless flags (thorough: more shapes), the REAL "
               "feature_from_line -> _split_keyvals (dialect inference) -> Feature.__init__ and Feature.__str__ -> _reconstruct are executed "
               "on the line written by the specification writer enc(items, D) with arbitrary decoded values of the grammar G(D): "
               "the eight columns ('.'/'' -> None, canonical integers), the extra columns and the decoded values in order are recovered and "
               "printing (keep_order=True) reproduces the line atom for atom, with 0-2 extra columns, '.' coordinates and an empty "
               "attribute column; the non-strict parse of the space-separated rendering yields a Feature that prints identically.  The "
               "per-character escape is justified by the exhaustive lemma C08.quoter.char.  Attribute KEYS are fixed representatives "
               "(ID, Name, Note).  BOUNDED (not counted as proved): the same round trip natively for larger shapes and adversarial / random "
               "contents.  Known finding: strict=False splits at U+2028/U+2029/U+0085.")
TRUSTED = ["T1 incl. strings with holes (barrier rule, per-character map rule)", "contracts/attrspec.py (writer enc, grammar G(D))"]
ASSUMPTIONS = ["A-U urllib.parse.unquote decodes a concatenation of %XX pieces piecewise (with the exhaustive char lemma: unquote(pct(u)) == u)", "A-R regex prefix match of \\w+=",
               "A-P str.split/join/strip semantics on the literal parts"]
PRECONDITIONS = ["G(D): values non-empty, without leading/trailing white space; unquoted styles: no leading '\"'; space-separated styles: no blank inside a value (covered by the stand-in); gtf style: no ; \" , control characters",
                 "columns 1-8 contain no tab / line break (and no white space for the non-strict rendering); start/end are canonical decimal integers or '.'",
                 "the first attribute carries a value (otherwise key=value vs. flag style is unobservable)"]
FUNCTIONS = ["gffutils.feature:feature_from_line", "gffutils.feature:Feature.__init__", "gffutils.feature:Feature.__unicode__", "gffutils.parser:_split_keyvals", "gffutils.parser:_reconstruct"]

COLX = frozenset("\t\n\r")


def col_holes(prefix, ws_free=False, coords="int"):
    ex = frozenset(_WS) | COLX if ws_free else COLX
    cols = []
    for c in ("seqid", "source", "featuretype"):
        cols.append(SStr([Val(z3.String("%s.%s" % (prefix, c)), excl=ex, nonempty=True, excl_first=frozenset("#>") if c == "seqid" else frozenset())]))
    if coords == "int":
        cols += [SStr([IntLit(z3.Int(prefix + ".start"))]), SStr([IntLit(z3.Int(prefix + ".end"))])]
    else:
        cols += [".", "."]
    for c in ("score", "strand", "frame"):
        cols.append(SStr([Val(z3.String("%s.%s" % (prefix, c)), excl=ex, nonempty=True)]))
    return cols


def assume_cols(ctx, cols):
    for c in cols:
        if isinstance(c, SStr):
            for a in c.atoms:
                if isinstance(a, Val):
                    for k in a.light_constraints():
                        ctx.assume(k)
                if isinstance(a, IntLit):
                    ctx.assume(a.e >= 0)


def join(parts, sep):
    atoms = []
    for i, p in enumerate(parts):
        if i:
            atoms.append(Lit(sep))
        atoms.extend(SStr.of(p).atoms)
    return mkstr(SStr(atoms))


def native_roundtrip(dname, D, shape, nextra=0, coords="int"):
    """replay: the same dialect and shape with adversarial concrete contents through the real code"""
    samples = ["x", "a b" if D["keyval separator"] != " " else "ab", "50%", "q\"uote" if D["fmt"] == "gff3" and D["quoted GFF2 values"] else "q", "e=1;2,3&" if D["fmt"] == "gff3" else "e1",
               "é中", "tab\there" if D["fmt"] == "gff3" else "th", "g%41", "100%25", "a%3Bb"]
    bad = []
    for rot in range(len(samples)):
        items = []
        k = rot
        for ai, n in enumerate(shape):
            vals = []
            for j in range(n):
                vals.append(samples[k % len(samples)] + str(k))
                k += 1
            items.append((A.KEYS[ai], vals))
        attr = _native_enc(items, D)
        cols = ["chr1", "src", "gene", "10" if coords == "int" else ".", "20" if coords == "int" else ".", "0.5", "+", "."]
        line = "\t".join(cols + [attr] + ["x%d" % i for i in range(nextra)])
        try:
            f = F.feature_from_line(line, keep_order=True)
            out = str(f)
            got = [(kk, list(vv)) for kk, vv in f.attributes.items()]
        except Exception as e:
            bad.append({"line": line, "observed": "raised %r" % (e,)})
            continue
        if out != line or got != items:
            bad.append({"line": line, "printed": out, "values": got, "expected_values": items})
    return {"inputs": {"dialect": dname, "shape": shape}, "observed": bad[:2], "violates": bool(bad)}


def _native_enc(items, D):
    parts = []
    for k, vs in items:
        groups = [[v] for v in vs] if (D["repeated keys"] and len(vs) > 1) else [vs]
        for g in groups:
            if not g:
                parts.append(k + D["keyval separator"] + '""' if D["fmt"] == "gtf" else k)
                continue
            ws = ["".join(P.quoter[c] for c in v) if D["fmt"] == "gff3" else v for v in g]
            body = ",".join(ws)
            if D["quoted GFF2 values"]:
                body = '"%s"' % body
            parts.append(k + D["keyval separator"] + body)
    return D["field separator"].join(parts) + (";" if D["trailing semicolon"] else "")


def _unit_roundtrip(styles, keys=None):
    """keys: other attribute keys than the standard three (e.g. keys that differ only in letter case, not adjacent), on the
    shape of three single-valued attributes and a sample of the dialects"""
    def unit(U):
        saved = list(A.KEYS)
        try:
            if keys is not None:
                A.KEYS[:] = list(keys)
            _roundtrip_body(U, styles, keys)
        finally:
            A.KEYS[:] = saved

    def _roundtrip_body(U, styles, keys):
        for dname, D in A.dialects():
            if dname.split("|")[0] not in styles:
                continue
            if keys is not None and not (dname.endswith("|norep") and ("';'|notrail" in dname or "'; '|trail" in dname)):
                continue
            for shape in (A.shapes(U.thorough) if keys is None else [(1, 1, 1)]):
                variants = [(0, "int")]
                if shape in ((1, 1), (2, 1, 0)):
                    variants += [(2, "int"), (1, "dot")]
                for nextra, coords in variants:
                    it = Interp()
                    A.install(it)

                    def run(ctx, D=D, shape=shape, nextra=nextra, coords=coords):
                        items = A.make_items(shape, D, ctx)
                        cols = col_holes("c", coords=coords)
                        extra = [SStr([Val(z3.String("x%d" % i), excl=COLX)]) for i in range(nextra)]
                        assume_cols(ctx, cols + extra)
                        attr = A.enc(items, D)
                        line = join(cols + [attr] + extra, "\t")
                        f = it.call(F.feature_from_line, [line], {"keep_order": True})
                        out = it.call(F.Feature.__str__, [f], {})
                        ctx.stash.update(items=items, cols=cols, extra=extra, line=line)
                        return f, out
                    base = "C07.roundtrip[%s,%s,extra=%d,%s]" % (dname, "x".join(map(str, shape)), nextra, coords) + ("" if keys is None else "[keys=%s]" % "/".join(keys))
                    replay = lambda m, dname=dname, D=D, shape=shape, nextra=nextra, coords=coords: native_roundtrip(dname, D, shape, nextra, coords)
                    paths = U.explore(run, it)
                    for p in paths:
                        if p.kind != "return":
                            U.prove(base + ".noraise#p%d" % p.index, "parse and print raise nothing inside the grammar (got %r)" % (p.value,), p.pc, z3.BoolVal(False), {}, replay=replay)
                            continue
                        st = p.ctx.stash
                        f, out = p.value
                        items, cols, extra, line = st["items"], st["cols"], st["extra"], st["line"]
                        okcols = all(_same(getattr(f, n), c) for n, c in zip(("seqid", "source", "featuretype"), cols[:3])) and \
                            all(_same(getattr(f, n), c) for n, c in zip(("score", "strand", "frame"), cols[5:8]))
                        if coords == "int":
                            okcols = okcols and isinstance(f.start, SInt) and isinstance(f.end, SInt) and f.start.e.eq(cols[3].atoms[0].e) and f.end.e.eq(cols[4].atoms[0].e)
                        else:
                            okcols = okcols and f.start is None and f.end is None
                        okextra = isinstance(f.extra, list) and len(f.extra) == len(extra) and all(_same(a, b) for a, b in zip(f.extra, extra))
                        U.prove(base + ".fields#p%d" % p.index, "the Feature carries the line's eight columns ('.' -> None, integers), the extra columns and the decoded attribute values, keys and values in order",
                                [], z3.BoolVal(bool(okcols and okextra and A.same_items(f.attributes, items))), {}, replay=replay)
                        same = _struct_eq(SStr.of(out), SStr.of(line)) is True
                        U.prove(base + ".bytes#p%d" % p.index, "str(feature_from_line(line, keep_order=True)) == line, byte for byte (for every content of the holes)", [], z3.BoolVal(bool(same)), {}, replay=replay)
                    if len(paths) != 1:
                        U.notes.append("%s: %d paths" % (base, len(paths)))
    return unit


def _same(a, b):
    a, b = mkstr(a), mkstr(b)
    if isinstance(a, str) and isinstance(b, str):
        return a == b
    if isinstance(a, (str, SStr)) and isinstance(b, (str, SStr)):
        return _struct_eq(SStr.of(a), SStr.of(b)) is True
    return False


def unit_empty_attrs(U):
    """empty attribute column (nine columns, the ninth empty)"""
    it = Interp()
    A.install(it)
    for nextra in (0, 1):
        def run(ctx, nextra=nextra):
            cols = col_holes("c")
            extra = [SStr([Val(z3.String("x%d" % i), excl=COLX)]) for i in range(nextra)]
            assume_cols(ctx, cols + extra)
            line = join(cols + [""] + extra, "\t")
            f = it.call(F.feature_from_line, [line], {"keep_order": True})
            ctx.stash["line"] = line
            return f, it.call(F.Feature.__str__, [f], {})

        def replay(m, nextra=nextra):
            line = "\t".join(["c", "s", "t", "1", "2", ".", "+", ".", ""] + ["e"] * nextra)
            out = str(F.feature_from_line(line, keep_order=True))
            return {"inputs": line, "observed": out, "violates": out != line}
        for p in U.explore(run, it):
            ok = p.kind == "return" and len(p.value[0].attributes) == 0 and _struct_eq(SStr.of(p.value[1]), SStr.of(p.ctx.stash["line"])) is True
            U.prove("C07.empty_attrs[extra=%d]#p%d" % (nextra, p.index), "an empty attribute column parses to no attributes and prints back as the same line", [], z3.BoolVal(bool(ok)), {}, replay=replay)


def unit_loose(U):
    """strict=False on the space-separated rendering of a nine-column line gives a Feature that prints identically"""
    breaks = frozenset("\x85  ")
    for dname, D in A.dialects():
        if not U.thorough and ("notrail" not in dname or "norep" not in dname):
            continue
        for shape in ((1,), (1, 2), (2, 1, 0)):
            it = Interp()
            A.install(it)

            def run(ctx, D=D, shape=shape):
                items = []
                for ai, n in enumerate(shape):
                    vals = []
                    for j in range(n):
                        v = A.value_hole("v%d_%d" % (ai, j), D)
                        v = Val(v.v, excl=v.excl | breaks, nonempty=True, excl_first=v.excl_first, excl_last=v.excl_last, tag="value")
                        for c in v.light_constraints():
                            ctx.assume(c)
                        vals.append(v)
                    items.append((A.KEYS[ai], vals))
                cols = col_holes("c", ws_free=True)
                assume_cols(ctx, cols)
                attr = A.enc(items, D)
                tabbed = join(cols + [attr], "\t")
                spaced = join(cols + [attr], " ")
                f1 = it.call(F.feature_from_line, [tabbed], {})
                f2 = it.call(F.feature_from_line, [spaced], {"strict": False})
                return it.call(F.Feature.__str__, [f1], {}), it.call(F.Feature.__str__, [f2], {}), f1, f2

            def replay(m, D=D, shape=shape, dname=dname):
                # value contents tried: plain tokens, then (where the grammar of the dialect allows blanks inside a
                # value) single, double and triple blanks inside the value
                pats = ["v%d%d"]
                if D["keyval separator"] != " ":
                    pats += ["x y%d%d", "x  y%d%d", "a   b  c%d%d"]
                last = None
                for pat in pats:
                    items = [(A.KEYS[ai], [pat % (ai, j) for j in range(n)]) for ai, n in enumerate(shape)]
                    attr = _native_enc(items, D)
                    cols = ["chr1", "src", "gene", "10", "20", "0.5", "+", "."]
                    try:
                        f1 = F.feature_from_line("\t".join(cols + [attr]))
                        f2 = F.feature_from_line(" ".join(cols + [attr]), strict=False)
                        last = {"inputs": {"dialect": dname, "attr": attr}, "observed": [str(f1), str(f2)], "violates": f1 != f2 or dict(f1.attributes) != dict(f2.attributes)}
                    except Exception as ex:
                        last = {"inputs": {"dialect": dname, "attr": attr}, "observed": "raised %r" % (ex,), "violates": True}
                    if last["violates"]:
                        return last
                return last
            for p in U.explore(run, it):
                ok = p.kind == "return" and _struct_eq(SStr.of(p.value[0]), SStr.of(p.value[1])) is True and p.value[2].dialect == p.value[3].dialect
                U.prove("C07.loose[%s,%s]#p%d" % (dname, "x".join(map(str, shape)), p.index),
                        "feature_from_line(space rendering, strict=False) equals the Feature parsed from the tab rendering (same printed line, same dialect)", [], z3.BoolVal(bool(ok)), {}, replay=replay)


def unit_quoter_switch(U):
    """printing is not influenced by what was printed earlier under the other setting of the escape switch (shared with C08)"""
    from props import C08
    C08.quoter_after_switch(U, "C07")


UNITS = [("quoter_switch", unit_quoter_switch), ("roundtrip.kv", _unit_roundtrip(("k=v",))), ("roundtrip.kqv", _unit_roundtrip(('k="v"',))), ("roundtrip.gtf", _unit_roundtrip(('k "v"',))),
         ("roundtrip.gff2", _unit_roundtrip(("k v",))), ("empty_attrs", unit_empty_attrs), ("loose", unit_loose),
         ("roundtrip.casekeys", _unit_roundtrip(("k=v", 'k "v"'), keys=("Note", "ID", "note"))), ("roundtrip.prefixkeys", _unit_roundtrip(("k=v",), keys=("gene", "ID", "gene_id")))]
try:
    from standins import C07 as _S
    UNITS = UNITS + list(_S.UNITS)
except ImportError:
    pass


def replay_known(entry):
    if entry.get("replay") == "loose-linebreakish":
        try:
            F.feature_from_line("chr2L FlyBase exon 7529 8116 0.5 + . ID=a b", strict=False)
            return False
        except AssertionError:
            return True
    return None


def replay_file(doc):
    return {"error": "re-run ./check C07 to regenerate and replay this obligation", "violates": None, "stored": doc.get("inputs")}
