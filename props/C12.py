"""C12 - genomic binning is sound.  Functions under contract: gffutils.bins:bins,
gffutils.feature:Feature.calc_bin, Feature.astuple (bin slot), gffutils.helpers:_bin_from_dict."""
import z3

import gffutils.bins as B
import gffutils.feature as F
import gffutils.helpers as H

from pyvc.core import SInt, SBool, SStr, MSet, IntLit, Val, Lit, Undecided
from pyvc.interp import Interp
from pyvc.harness import model_of, ev, concretize
from pyvc.logic import And, Or, Not, Implies, Ite, Eq, shr
from contracts import spec_bins as S
from contracts.common import bins_contract, blank_feature

LEVEL = "proof"
EXPLANATION = ("bins.bins is executed symbolically from its real AST for fmt in {gff,bed} x one in {True,False} over "
               "unbounded mathematical integers (loop over the real OFFSETS unrolled: loop-free, complete); every path is "
               "checked against the specification written from the statement (out-of-range -> 1, exact level formula, exact "
               "set, extent containment, finest level, int-ness); the nesting lemma is proved over the specification; "
               "calc_bin / astuple / _bin_from_dict are proved against the bins contract.")
TRUSTED = ["contracts/spec_bins.py (specification of the 5-level scheme, from the statement)"]
ASSUMPTIONS = ["Python ints are mathematical integers; x >> k == floor(x / 2**k)"]
PRECONDITIONS = ["bins: start, stop are ints (None -> TypeError clause); fmt in {'gff','bed'}"]
FUNCTIONS = ["gffutils.create:_GTFDBCreator._update_relations", "gffutils.create:_DBCreator._insert", "gffutils.create:_DBCreator._replace", "gffutils.interface:FeatureDB._insert", "gffutils.interface:FeatureDB._update", "gffutils.bins:bins", "gffutils.feature:Feature.calc_bin", "gffutils.feature:Feature.astuple",
             "gffutils.helpers:_bin_from_dict"]


def _native_bins_clause(name, s, e, fmt, one):
    """Evaluate clause `name` natively on the real function; returns (holds, observed)."""
    try:
        r = B.bins(s, e, fmt=fmt, one=one)
    except Exception as ex:                     # noqa
        return False, "raised %r" % (ex,)
    return _clause(name, s, e, fmt, one, r, native=True), repr(r) if not isinstance(r, set) or len(r) < 40 else "set of %d bins" % len(r)


def _is_int(r):
    return (isinstance(r, (SInt, int)) and not isinstance(r, bool)) or (isinstance(r, z3.ArithRef) and r.is_int())


def _clause(name, s, e, fmt, one, r, native=False, b=None):
    """The contract clauses of bins (dual mode).  r is the returned value."""
    oor = S.oor(s, e, fmt)
    if isinstance(r, SInt):
        r = r.e
    if name == "one_int":
        return _is_int(r)
    if name == "set_is_set":
        return isinstance(r, (set, MSet))
    if name == "oor_one":
        return Implies(oor, Eq(r, 1)) if _is_int(r) else Not(oor)
    if name == "one_level":
        return Eq(r, S.bin1(s, e, fmt)) if _is_int(r) else False
    if name == "contains":
        # the bin's extent contains 0-based [start-off, stop]  (interval plus the following base)
        if not _is_int(r):
            return False
        return Implies(Not(oor), S.bin_extent_contains(r, s - S.off(fmt), e))
    if name == "finest":
        if not _is_int(r):
            return False
        s0 = s - S.off(fmt)
        cs = []
        for L in range(1, 5):
            for Lp in range(L):
                cs.append(Implies(And(Not(oor), S.bin_level_is(r, L)), Not(S.same(s0, e, Lp))))
        return And(*cs)
    if name == "set_exact":
        if not isinstance(r, (set, MSet)):
            return False
        if native:
            return set(r) == S.native_binset(s, e, fmt)
        return r.member(b) == S.binset_member(s, e, fmt, b)
    if name == "set_superset":      # every bin overlapping the interval is in the set
        if not isinstance(r, (set, MSet)):
            return False
        s0 = s - S.off(fmt)
        if native:
            if S.oor(s, e, fmt) or s0 > e - 1:
                return True
            return all((S.OFF[L] + k) in r for L in range(5) for k in range(s0 >> S.SH[L], ((e - 1) >> S.SH[L]) + 1))
        return Implies(And(Not(oor), s0 <= e - 1, S.bin_overlaps(b, s0, e - 1)), r.member(b))
    if name == "set_subset":        # only bins overlapping the interval widened by one base on either side
        if not isinstance(r, (set, MSet)):
            return False
        s0 = s - S.off(fmt)
        if native:
            if S.oor(s, e, fmt) or s0 > e:
                return True
            return all(bb == 1 or S.bin_overlaps(bb, s0 - 1, e) for bb in r)
        return Implies(And(Not(oor), s0 <= e, r.member(b)), Or(Eq(b, 1), S.bin_overlaps(b, s0 - 1, e)))
    if name == "oor_set":
        if not isinstance(r, (set, MSet)):
            return False
        if native:
            return (not S.oor(s, e, fmt)) or set(r) == {1}
        return Implies(oor, r.member(b) == (b == 1))
    raise KeyError(name)


ONE_CLAUSES = [("one_int", "one ==> is_int(ret)"),
               ("oor_one", "oor(start,stop,fmt) and one ==> ret == 1"),
               ("one_level", "one ==> ret == bin1(start,stop,fmt)  [1 when out of range, else OFFSETS[L]+(s0>>SH[L]) at the least L with equal shifted ends]"),
               ("contains", "one and not oor ==> extent(ret) contains 0-based [start-off, stop]"),
               ("finest", "one and not oor and ret at level L ==> no finer level has s0>>SH == stop>>SH")]
SET_CLAUSES = [("set_is_set", "not one ==> ret is a set"),
               ("oor_set", "oor and not one ==> ret == {1}"),
               ("set_exact", "not one ==> forall b: (b in ret) == binset(start,stop,fmt)(b)"),
               ("set_superset", "not one and not oor ==> every bin overlapping the interval is in ret"),
               ("set_subset", "not one and not oor ==> every member of ret is 1 or overlaps the interval widened by one base")]


def _unit_bins(fmt, one):
    def unit(U):
        it = Interp()
        s, e, b = z3.Int("start"), z3.Int("stop"), z3.Int("b")
        vars_ = {"start": s, "stop": e, "b": b}

        def run(ctx):
            return it.call(B.bins, [SInt(s), SInt(e)], {"fmt": fmt, "one": one})
        paths = U.explore(run)
        U.refuted("C12.bins.canary[%s,%s]" % (fmt, one), [z3.Or(*[z3.And(*p.pc) for p in paths])], z3.BoolVal(False),
                  "disjunction of path conditions is satisfiable")
        # the paths cover all inputs
        U.prove("C12.bins.total[%s,%s]" % (fmt, one), "every (start, stop) in Z x Z takes some explored path",
                [], z3.Or(*[z3.And(*p.pc) for p in paths]), vars_)
        for p in paths:
            if p.kind != "return":
                U.prove("C12.bins.noraise[%s,%s]#p%d" % (fmt, one, p.index), "bins raises nothing on ints", p.pc, z3.BoolVal(False), vars_,
                        replay=lambda m: {"inputs": m, "call": "bins(start, stop, fmt=%r, one=%r)" % (fmt, one),
                                          "violates": not _native_bins_clause("one_int" if one else "set_is_set", m["start"], m["stop"], fmt, one)[0]})
                continue
            r = p.value
            for name, text in (ONE_CLAUSES if one else SET_CLAUSES):
                goal = _clause(name, s, e, fmt, one, r, b=b)
                goal = goal if not isinstance(goal, bool) else z3.BoolVal(goal)

                def replay(m, name=name):
                    holds, obs = _native_bins_clause(name, m["start"], m["stop"], fmt, one)
                    return {"inputs": {"start": m["start"], "stop": m["stop"], "fmt": fmt, "one": one},
                            "call": "gffutils.bins.bins(%d, %d, fmt=%r, one=%r)" % (m["start"], m["stop"], fmt, one),
                            "expected": text, "observed": obs, "violates": not holds}
                U.prove("C12.bins.%s[%s,%s]#p%d" % (name, fmt, "one" if one else "set", p.index), text, p.pc, goal, vars_, replay=replay)
            # path validation: the real function on a model of the path agrees with the symbolic result
            m = model_of(p.pc)
            if m is not None:
                cs, ce = ev(m, s), ev(m, e)
                if abs(cs) < 2 ** 40 and abs(ce) < 2 ** 40:
                    try:
                        nat = B.bins(cs, ce, fmt=fmt, one=one)
                        sym = concretize(r, m)
                        if nat != sym:
                            U.engine_mismatch("C12.bins.validate#p%d" % p.index, "native %r vs symbolic %r at (%d,%d)" % (nat, sym, cs, ce))
                        U.validated()
                    except Undecided:
                        pass
    return unit


def unit_nest(U):
    """Lemma: overlapping / nested in-range intervals: bin of one is in the bin set of the other."""
    fs, fe, qs, qe = z3.Ints("f_start f_end q_start q_end")
    vars_ = {"f_start": fs, "f_end": fe, "q_start": qs, "q_end": qe}
    for fmt in ("gff", "bed"):
        hyp = [S.inrange(qs, qe, fmt), fs <= fe, qs <= qe, fs <= qe, fe >= qs]

        def replay(m, fmt=fmt):
            one = B.bins(m["f_start"], m["f_end"], fmt=fmt, one=True)
            st = B.bins(m["q_start"], m["q_end"], fmt=fmt, one=False)
            return {"inputs": dict(m, fmt=fmt), "call": "bins(f, one=True) in bins(q, one=False)",
                    "expected": "True", "observed": "%r in set of %d bins" % (one, len(st)) if isinstance(st, set) else repr(st),
                    "violates": not (isinstance(st, set) and one in st)}
        U.prove("C12.lemma.nest[%s]" % fmt,
                "inrange(q) and f.start <= f.end and q.start <= q.end and f.start <= q.end and f.end >= q.start ==> bin1(f) in binset(q)",
                hyp, S.binset_member(qs, qe, fmt, S.bin1(fs, fe, fmt)), vars_, replay=replay, kind="lemma")
        U.cover("C12.lemma.nest.cover[%s]" % fmt, hyp + [fs > 2 ** 17, fe < qe], "nest lemma hypotheses reachable")


def unit_calc_bin(U):
    """Feature.calc_bin / astuple()[11] / _bin_from_dict against the bins contract."""
    for shape in ("ints", "start_none", "end_none", "given"):
        it = Interp()
        it.contracts[B.bins] = bins_contract
        s, e, g = z3.Int("start"), z3.Int("end"), z3.Int("given")
        vars_ = {"start": s, "end": e, "given": g}

        def mk():
            f = blank_feature()
            f.start = None if shape == "start_none" else SInt(s)
            f.end = None if shape == "end_none" else SInt(e)
            return f

        def run(ctx):
            f = mk()
            return it.call(F.Feature.calc_bin, [f] + ([SInt(g)] if shape == "given" else []), {})

        def replay(m, shape=shape):
            f = F.Feature(start=m["start"], end=m["end"])
            if shape == "start_none":
                f.start = None
            if shape == "end_none":
                f.end = None
            if shape == "given":
                obs = f.calc_bin(m["given"])
                exp = m["given"]
            elif shape == "ints":
                obs = f.calc_bin()
                exp = S.bin1(m["start"], m["end"], "gff")
            else:
                obs = f.calc_bin()
                try:
                    exp = B.bins(f.start, f.end, one=True)
                except TypeError:
                    exp = None
            return {"inputs": dict(m, shape=shape), "call": "Feature.calc_bin", "expected": repr(exp), "observed": repr(obs), "violates": obs != exp}
        for p in U.explore(run):
            if p.kind != "return":
                U.prove("C12.calc_bin.noraise[%s]#p%d" % (shape, p.index), "calc_bin raises nothing", p.pc, z3.BoolVal(False), vars_, replay=replay)
                continue
            r = p.value
            if shape == "ints":
                goal = Eq(r, S.bin1(s, e, "gff")) if isinstance(r, (SInt, int)) else False
                text = "_bin is None and ints ==> ret == bins(start, end, one=True)"
            elif shape == "given":
                goal = Eq(r, g) if isinstance(r, (SInt, int)) else False
                text = "_bin is not None ==> ret == _bin"
            else:
                goal = (r is None) or (Eq(r, 1) if isinstance(r, (SInt, int)) else False)
                text = "a None coordinate ==> raises nothing; ret is None (bins raised TypeError) or the whole-chromosome bin 1"
            U.prove("C12.calc_bin.%s#p%d" % (shape, p.index), text, p.pc, goal if not isinstance(goal, bool) else z3.BoolVal(goal), vars_, replay=replay)

    # astuple()[11] == calc_bin(None)
    it = Interp()
    it.contracts[B.bins] = bins_contract
    it.contracts[H._jsonify] = lambda interp, a, k: "<json>"
    s, e = z3.Int("start"), z3.Int("end")

    def run2(ctx):
        f = blank_feature()
        f.start, f.end = SInt(s), SInt(e)
        f.bin = SInt(z3.Int("stale_bin"))
        return it.call(F.Feature.astuple, [f], {})

    def replay2(m):
        f = F.Feature(start=m["start"], end=m["end"])
        f.bin = -7
        t = f.astuple()
        exp = S.bin1(m["start"], m["end"], "gff")
        return {"inputs": m, "call": "Feature(start,end).astuple()[11]", "expected": exp, "observed": t[11], "violates": t[11] != exp}
    for p in U.explore(run2):
        ok = p.kind == "return" and isinstance(p.value, tuple) and len(p.value) == 12 and isinstance(p.value[11], (SInt, int))
        goal = Eq(p.value[11], S.bin1(s, e, "gff")) if ok else z3.BoolVal(False)
        U.prove("C12.astuple.bin#p%d" % p.index, "astuple()[11] == bins(start, end, one=True) (recomputed, not the cached attribute)",
                p.pc, goal, {"start": s, "end": e}, replay=replay2)

    # _bin_from_dict
    for shape in ("ints", "dot"):
        it = Interp()
        it.contracts[B.bins] = bins_contract

        def run3(ctx):
            if shape == "ints":
                d = {"start": SStr([IntLit(s)]), "end": SStr([IntLit(e)])}
            else:
                d = {"start": ".", "end": SStr([IntLit(e)])}
            return it.call(H._bin_from_dict, [d], {})

        def replay3(m, shape=shape):
            d = {"start": str(m["start"]) if shape == "ints" else ".", "end": str(m["end"])}
            obs = H._bin_from_dict(d)
            exp = S.bin1(m["start"], m["end"], "gff") if shape == "ints" else None
            return {"inputs": d, "call": "helpers._bin_from_dict(d)", "expected": exp, "observed": obs, "violates": obs != exp}
        for p in U.explore(run3):
            if shape == "ints":
                ok = p.kind == "return" and isinstance(p.value, (SInt, int))
                goal = Eq(p.value, S.bin1(s, e, "gff")) if ok else z3.BoolVal(False)
                text = "decimal start/end ==> ret == bins(int(start), int(end), one=True)"
            else:
                goal = z3.BoolVal(p.kind == "return" and p.value is None)
                text = "'.' coordinate ==> ret is None"
            U.prove("C12._bin_from_dict.%s#p%d" % (shape, p.index), text, p.pc, goal, {"start": s, "end": e}, replay=replay3)


def unit_init_bin(U):
    """the constructor: Feature(start=<int>, end=<int>) (no bin given) sets bin == bins(start, end) for EVERY pair of integers -
    zero, negative, start > end included -; a bin that is given is kept; '.' / None coordinates give coordinates None"""
    for shape in ("ints", "given"):
        it = Interp()
        it.contracts[B.bins] = bins_contract
        s, e, g = z3.Int("start"), z3.Int("end"), z3.Int("given")
        vars_ = {"start": s, "end": e, "given": g}

        def run(ctx, shape=shape):
            f = object.__new__(F.Feature)
            kw = {"seqid": "c", "start": SInt(s), "end": SInt(e)}
            if shape == "given":
                kw["bin"] = SInt(g)
            it.call(F.Feature.__init__, [f], kw)
            return f

        def replay(m, shape=shape):
            cands = [(m.get("start", 1), m.get("end", 1)), (0, 1000), (1, 0), (0, 0), (-5, 3), (131072, 131073)]
            for a, b in cands:
                if shape == "given":
                    f = F.Feature(start=a, end=b, bin=m.get("given", 7))
                    exp = m.get("given", 7)
                else:
                    f = F.Feature(start=a, end=b)
                    exp = S.bin1(a, b, "gff")
                if f.bin != exp or f.start != a or f.end != b:
                    return {"inputs": {"start": a, "end": b, "shape": shape}, "call": "Feature(start, end).bin", "expected": exp, "observed": f.bin, "violates": True}
            return {"inputs": cands, "violates": False}
        for p in U.explore(run, it):
            if p.kind != "return":
                U.prove("C12.init.noraise[%s]#p%d" % (shape, p.index), "the constructor raises nothing for integer coordinates (got %r)" % (p.value,), p.pc, z3.BoolVal(False), vars_, replay=replay)
                continue
            f = p.value
            b = getattr(f, "bin", None)
            okc = isinstance(f.start, SInt) and isinstance(f.end, SInt)
            if shape == "ints":
                goal = z3.And(Eq(b, S.bin1(s, e, "gff")), f.start.e == s, f.end.e == e) if okc and isinstance(b, (SInt, int)) else z3.BoolVal(False)
                text = "Feature(start, end).bin == bins(start, end, one=True) and the coordinates are kept, for all integers"
            else:
                goal = z3.And(Eq(b, g), f.start.e == s, f.end.e == e) if okc and isinstance(b, (SInt, int)) else z3.BoolVal(False)
                text = "a bin given to the constructor is kept"
            U.prove("C12.init.bin[%s]#p%d" % (shape, p.index), text, p.pc, goal, vars_, replay=replay)


def unit_calc_bin_twice(U):
    """calc_bin / astuple are functions of the feature alone: called for one feature and then for ANOTHER (any two
    coordinate pairs, same process), the second answer is bins() of the second - nothing remembered from the first"""
    it = Interp()
    it.contracts[B.bins] = bins_contract
    s1, e1, s2, e2 = z3.Int("start1"), z3.Int("end1"), z3.Int("start2"), z3.Int("end2")
    vars_ = {"start1": s1, "end1": e1, "start2": s2, "end2": e2}

    def run(ctx):
        f1, f2 = blank_feature(), blank_feature()
        f1.start, f1.end, f2.start, f2.end = SInt(s1), SInt(e1), SInt(s2), SInt(e2)
        r1 = it.call(F.Feature.calc_bin, [f1], {})
        r2 = it.call(F.Feature.calc_bin, [f2], {})
        r1b = it.call(F.Feature.calc_bin, [f1], {})
        return r1, r2, r1b

    def replay(m):
        cands = [(m.get("start1", 1), m.get("end1", 1), m.get("start2", 1), m.get("end2", 1)), (393217, 393224, 393216, 393224), (393216, 393224, 393217, 393224), (1, 10, 131073, 131080)]
        for a1, b1, a2, b2 in cands:
            f1, f2 = F.Feature(start=a1, end=b1), F.Feature(start=a2, end=b2)
            got = (f1.calc_bin(), f2.calc_bin(), f1.calc_bin())
            exp = (S.bin1(a1, b1, "gff"), S.bin1(a2, b2, "gff"), S.bin1(a1, b1, "gff"))
            if got != exp:
                return {"inputs": {"first": (a1, b1), "second": (a2, b2)}, "expected": exp, "observed": got, "violates": True}
        return {"inputs": cands, "violates": False}
    for p in U.explore(run, it):
        ok = p.kind == "return" and all(isinstance(x, (SInt, int)) for x in p.value)
        goal = z3.And(Eq(p.value[0], S.bin1(s1, e1, "gff")), Eq(p.value[1], S.bin1(s2, e2, "gff")), Eq(p.value[2], S.bin1(s1, e1, "gff"))) if ok else z3.BoolVal(False)
        U.prove("C12.calc_bin.twice#p%d" % p.index, "calc_bin of a first and then of a second feature: each result is bins(start, end) of ITS feature (no state carried between calls)", p.pc, goal, vars_, replay=replay)


def unit_bins_twice(U):
    """bins() is a function of its arguments: a second call (other arguments, same process) answers for ITS arguments"""
    it = Interp()
    s1, e1, s2, e2 = z3.Int("start1"), z3.Int("end1"), z3.Int("start2"), z3.Int("end2")
    vars_ = {"start1": s1, "end1": e1, "start2": s2, "end2": e2}

    def run(ctx):
        for a, b in ((s1, e1), (s2, e2)):
            ctx.assume(z3.And(a >= 1, b >= a, b < 2 ** 29))
        r1 = it.call(B.bins, [SInt(s1), SInt(e1)], {"one": True})
        r2 = it.call(B.bins, [SInt(s2), SInt(e2)], {"one": True})
        return r1, r2

    def replay(m):
        a1, b1, a2, b2 = (int(m.get(k, 1)) for k in ("start1", "end1", "start2", "end2"))
        got = (B.bins(a1, b1, one=True), B.bins(a2, b2, one=True))
        exp = (S.bin1(a1, b1, "gff"), S.bin1(a2, b2, "gff"))
        return {"inputs": {"first": (a1, b1), "second": (a2, b2)}, "expected": exp, "observed": got, "violates": got != exp}
    for p in U.explore(run, it):
        ok = p.kind == "return" and all(isinstance(x, (SInt, int)) for x in p.value)
        goal = z3.And(Eq(p.value[0], S.bin1(s1, e1, "gff")), Eq(p.value[1], S.bin1(s2, e2, "gff"))) if ok else z3.BoolVal(False)
        U.prove("C12.bins.twice#p%d" % p.index, "two calls of bins(one=True) in a row: each result is the bin of ITS arguments (in-range gff coordinates)", p.pc, goal, vars_, replay=replay)


def unit_print_bin_sizes(U):
    """the other public function of bins.py, print_bin_sizes() (a debugging aid), leaves the binning scheme alone: after it
    has run, bins() still answers as specified (its module-level tables are unchanged)"""
    import io
    import contextlib
    it = Interp()
    s, e = z3.Int("start"), z3.Int("end")
    vars_ = {"start": s, "end": e}

    def run(ctx):
        ctx.assume(z3.And(s >= 1, e >= s, e < 2 ** 29))
        with contextlib.redirect_stdout(io.StringIO()):
            it.call(B.print_bin_sizes, [], {})
        return it.call(B.bins, [SInt(s), SInt(e)], {"one": True})

    def replay(m):
        cands = [(int(m.get("start", 262145)), int(m.get("end", 262200))), (262145, 262200), (100, 900), (5000000, 9000000)]
        with contextlib.redirect_stdout(io.StringIO()):
            B.print_bin_sizes()
        for a, b in cands:
            if not (1 <= a <= b < 2 ** 29):
                continue
            got, exp = B.bins(a, b, one=True), S.bin1(a, b, "gff")
            if got != exp:
                return {"inputs": {"history": "print_bin_sizes(); bins(%d, %d, one=True)" % (a, b)}, "expected": exp, "observed": got, "violates": True}
        return {"inputs": cands, "violates": False}
    for p in U.explore(run, it):
        ok = p.kind == "return" and isinstance(p.value, (SInt, int))
        U.prove("C12.bins.after_print_bin_sizes#p%d" % p.index, "bins() after print_bin_sizes() has run == the bin of its arguments", p.pc, Eq(p.value, S.bin1(s, e, "gff")) if ok else z3.BoolVal(False), vars_, replay=replay)


def unit_stored_bin(U):
    """every statement that writes a row of `features` stores bin = bins(start, end) of the feature it writes:
    _DBCreator._insert / _replace (import, merge_strategy='replace') and FeatureDB._insert / _update (add_relation
    callbacks).  The column a value goes to is taken from the SQL text, the value from its position in the arguments."""
    import sqlite3
    import gffutils.create as C
    import gffutils.interface as I
    from pyvc import ghostdb
    from pyvc import sqlmodel as Q
    from contracts import importer as IM
    from contracts.qharness import blank_db
    import gffutils
    s, e = z3.Int("start"), z3.Int("end")
    writers = [("creator._insert", C._DBCreator._insert, "creator"), ("creator._replace", C._DBCreator._replace, "creator"),
               ("db._insert", I.FeatureDB._insert, "db"), ("db._update", I.FeatureDB._update, "db")]
    for name, fn, owner in writers:
        it = Interp()
        it.contracts[B.bins] = bins_contract
        IM.install_json(it)

        def run(ctx, fn=fn, owner=owner):
            ctx.assume(s <= e)
            fid, _ = IM.sval("f.ID")
            f, _ = IM.sym_feature("f", {"ID": [fid]})
            f.start, f.end = SInt(s), SInt(e)
            f.id = fid
            f.bin = SInt(z3.Int("stale_bin"))          # whatever was cached on the object
            conn = ghostdb.GhostConn()
            slf = IM.blank_creator(C._GFFDBCreator, conn) if owner == "creator" else blank_db()
            if owner == "db":
                slf.conn = conn
            it.call(fn, [slf, f, conn.cursor()], {})
            return f

        def replay(m, name=name):
            a, b = int(m.get("start", 1)), int(m.get("end", 1))
            obs = []
            for (a0, b0) in ((a, b) if 1 <= a <= b < 2 ** 29 else (1, 5), (1, 5), (131073, 131080), (1, 300000)):
                # a stored feature is replaced by one with the same id and other coordinates, through the real API
                old = F.Feature(seqid="c", featuretype="gene", start=7, end=9, attributes={"ID": ["k"]})
                new = F.Feature(seqid="c", featuretype="gene", start=a0, end=b0, attributes={"ID": ["k"]})
                try:
                    if "replace" in name or "update" in name:
                        db = gffutils.create_db([old, new], ":memory:", merge_strategy="replace")
                    else:
                        db = gffutils.create_db([new], ":memory:")
                    row = list(db.conn.execute("SELECT start, end, bin FROM features WHERE id = 'k'"))[0]
                    exp = S.bin1(a0, b0, "gff")
                    obs.append(((a0, b0), tuple(row), exp))
                    if tuple(row) != (a0, b0, exp) or db["k"].bin != exp:
                        return {"inputs": {"writer": name, "start": a0, "end": b0}, "expected": (a0, b0, exp), "observed": tuple(row), "violates": True}
                except Exception as ex:
                    return {"inputs": {"writer": name, "start": a0, "end": b0}, "observed": "raised %r" % (ex,), "violates": True}
            return {"inputs": {"writer": name}, "observed": obs, "violates": False}
        for p in U.explore(run, it):
            if p.kind != "return":
                U.prove("C12.stored_bin[%s].noraise#p%d" % (name, p.index), "writing a row raises nothing (got %r)" % (p.value,), p.pc, z3.BoolVal(False), {"start": s, "end": e}, replay=replay)
                continue
            effs = [x for x in IM.classify(p.ctx.effects) if x.kind in ("insert", "update") and x.table == "features"]
            goal = z3.BoolVal(False)
            if len(effs) == 1:
                x = effs[0]
                try:
                    if x.kind == "insert":
                        t, conflict, cols, exprs = IM.insert_info(x.stmt.node)
                        args = list(x.args)
                        pairs = dict(zip(cols or Q.FEATURE_COLS, args)) if all(Q.expr_text(v).strip() == "?" for v in exprs) and len(args) == len(exprs) else {}
                    else:
                        import lark
                        assigns = [c for c in x.stmt.node.children if isinstance(c, lark.Tree) and c.data == "assign"]
                        args = list(x.args)
                        pairs = {str(a.children[0]): v for a, v in zip(assigns, args)} if all(Q.expr_text(a.children[-1]).strip() == "?" for a in assigns) else {}
                    b_ = pairs.get("bin")
                    if isinstance(b_, (SInt, int)) and isinstance(pairs.get("start"), SInt) and isinstance(pairs.get("end"), SInt):
                        goal = z3.And(Eq(b_, S.bin1(s, e, "gff")), pairs["start"].e == s, pairs["end"].e == e)
                except (Q.SQLArgs, Q.SQLSyntax, Undecided, KeyError):
                    goal = z3.BoolVal(False)
            U.prove("C12.stored_bin[%s]#p%d" % (name, p.index), "the one statement writing the features row stores start, end and bin == bins(start, end) of the feature written (never a cached or previous bin)",
                    p.pc, goal, {"start": s, "end": e}, replay=replay)


def unit_stored_bin_gtf_finish(U):
    """the GTF importer's own write path for inferred genes / transcripts (_GTFDBCreator._update_relations), also when
    the id is already stored (update() re-infers over the whole database: the insert collides): whatever statements then
    touch `features`, none leaves a row whose start / end / bin were not written together as (s, e, bins(s, e))"""
    import sqlite3, lark
    import gffutils.create as C
    import gffutils
    from pyvc import sqlmodel as Q
    from contracts import importer as IM
    from props import C03
    for answer in ("merge", "create_unique"):
        it, fs = C03._interp()

        def mk_on_execute(ctx):
            state = {"n": 0}

            def on_execute(cur, q, a):
                try:
                    st = Q.parse(q)
                except Q.SQLSyntax:
                    return
                if st.kind == "insert" and IM.insert_info(st.node)[0] == "features":
                    state["n"] += 1
                    if state["n"] == 1:
                        raise sqlite3.IntegrityError("UNIQUE constraint failed: features.id")
            return on_execute
        inner = C03._finish_run(it, False, True, 1, True, on_execute=mk_on_execute)

        def run(ctx, answer=answer, inner=inner):
            def do_merge(interp, a, k):
                f = a[1]
                if answer == "merge":
                    return (f, "merge")
                f.id = SStr(list(SStr.of(f.id).atoms) + [Lit("_1")])
                return (f, "create_unique")
            it.contracts[C._DBCreator._do_merge] = do_merge
            return inner(ctx)

        def replay(m):
            d = dict(gffutils.constants.dialect, fmt="gtf")
            d.update({"quoted GFF2 values": True, "keyval separator": " ", "field separator": "; ", "trailing semicolon": True})
            mk = lambda s, e, n: F.Feature(seqid="chr1", source="s", featuretype="exon", start=s, end=e, strand="+", attributes={"gene_id": ["g1"], "transcript_id": ["t1"], "exon_number": [str(n)]}, dialect=d)
            db = gffutils.create_db([mk(1000, 2000, 1), mk(139000, 140000, 2)], ":memory:", dialect=d, id_spec={"gene": "gene_id", "transcript": "transcript_id", "exon": ["exon_number"]})
            db.delete([f for f in db.features_of_type("exon") if f.start == 139000])
            db.update([mk(3000, 4000, 3)], merge_strategy="create_unique", id_spec={"gene": "gene_id", "transcript": "transcript_id", "exon": ["exon_number"]})
            rows = list(db.conn.execute("SELECT id, start, end, bin FROM features"))
            bad = [tuple(r) for r in rows if r[3] != S.bin1(r[1], r[2], "gff")]
            return {"inputs": "GTF: exons 1000-2000 and 139000-140000 of t1; delete the second; update with exon 3000-4000 of t1 (gene / transcript are re-inferred over stored ids)",
                    "expected": "every row: bin == bins(start, end)", "observed": bad or [tuple(r) for r in rows], "violates": bool(bad)}
        for p in U.explore(run, it):
            base = "C12.stored_bin[gtf.finish,collision,%s]" % answer
            if p.kind != "return":
                U.prove(base + ".noraise#p%d" % p.index, "raises nothing (got %r)" % (p.value,), p.pc, z3.BoolVal(False), {}, replay=replay)
                continue
            goals = []
            n = 0
            for x in IM.classify(p.ctx.effects):
                if x.table != "features" or x.kind not in ("insert", "update", "replace", "script"):
                    continue
                n += 1
                if x.stmt is None:
                    goals.append(z3.BoolVal(False))           # a write to features outside the modelled SQL: its effect on start / end / bin is unknown
                    continue
                try:
                    if x.kind == "insert":
                        t, conflict, cols, exprs = IM.insert_info(x.stmt.node)
                        args = list(x.args)
                        pairs = dict(zip(cols or Q.FEATURE_COLS, args)) if all(Q.expr_text(v).strip() == "?" for v in exprs) and len(args) == len(exprs) else None
                    else:
                        assigns = [a for a in x.stmt.node.children if isinstance(a, lark.Tree) and a.data == "assign"]
                        touched = set(str(a.children[0]) for a in assigns)
                        if not (touched & {"start", "end", "bin"}):
                            continue
                        args = list(x.args)
                        pairs = {str(a.children[0]): v for a, v in zip(assigns, args)} if all(Q.expr_text(a.children[-1]).strip() == "?" for a in assigns) else None
                    if not pairs or not all(isinstance(pairs.get(k), SInt) for k in ("start", "end", "bin")):
                        goals.append(z3.BoolVal(False))
                    else:
                        goals.append(pairs["bin"].e == S.bin1(pairs["start"].e, pairs["end"].e, "gff"))
                except (Q.SQLArgs, Q.SQLSyntax, Undecided, KeyError):
                    goals.append(z3.BoolVal(False))
            U.prove(base + "#p%d" % p.index, "every statement of the inferred-feature write path that sets start, end or bin of a features row sets all three, plainly, to (s, e, bins(s, e))",
                    p.pc, z3.And(*goals) if goals else z3.BoolVal(n == 0 or True), {}, replay=replay)


def unit_boundary(U):
    """Bounded stand-in named by the statement's quantifier: all pairs within +-2 of every bin
    boundary multiple (sampled multiples), 0 and 2**29; contract clauses evaluated natively."""
    pts = set()
    for L in range(5):
        size = 2 ** S.SH[L]
        for k in (0, 1, 2, 7, 8, 9, 2 ** 29 // size - 1, 2 ** 29 // size):
            for d in range(-2, 3):
                pts.add(k * size + d)
    for d in range(-2, 3):
        pts.add(d)
        pts.add(2 ** 29 + d)
    pts = sorted(pts)
    if not U.thorough:
        pts = [p for i, p in enumerate(pts) if i % 2 == 0 or abs(p) < 4 or abs(p - 2 ** 29) < 3]
    fails = []
    n = 0
    for fmt in ("gff", "bed"):
        for a in pts:
            for b_ in pts:
                if b_ < a:
                    continue
                n += 1
                for name, text in ONE_CLAUSES:
                    h, obs = _native_bins_clause(name, a, b_, fmt, True)
                    if not h:
                        fails.append({"case": {"start": a, "stop": b_, "fmt": fmt, "one": True, "clause": name}, "expected": text, "observed": obs})
                for name in ("set_is_set", "set_exact", "oor_set"):
                    h, obs = _native_bins_clause(name, a, b_, fmt, False)
                    if not h:
                        fails.append({"case": {"start": a, "stop": b_, "fmt": fmt, "one": False, "clause": name}, "expected": name, "observed": obs})
                # Feature.bin == bins(start, end)
                if fmt == "gff":
                    f = F.Feature(start=a, end=b_)
                    exp = S.bin1(a, b_, "gff")
                    if f.bin != exp:
                        fails.append({"case": {"start": a, "stop": b_, "clause": "Feature.bin"}, "expected": exp, "observed": f.bin})
    U.bounded_result("C12.bounded.boundaries", "contract clauses of bins + Feature.bin on all ordered pairs of boundary points",
                     "%d points within +-2 of bin-size multiples, 0, 2**29; both conventions" % len(pts), n, fails,
                     exhaustive=True, sample={"start": pts[3], "stop": pts[5]})


def unit_handed_out(U):
    """Bounded: every Feature a FeatureDB hands out or derives - rows read back, interfeatures, introns, merged features -
    carries bin == bins(start, end), with the features placed so that the derived coordinates fall on either side of bin
    boundaries (a gap that begins / ends exactly on a multiple of 2**17, 2**20, 2**23)."""
    import gffutils
    fails, cases = [], 0
    for L in (17, 20, 23):
        B0 = 2 ** L
        for d1 in (-2, -1, 0, 1):
            for d2 in (-1, 0, 1, 2):
                left_end, right_start = B0 + d1, B0 + 1000 + d2 if L == 17 else 2 * B0 + d2
                feats = []
                for i, (a, b) in enumerate(((left_end - 50, left_end), (right_start, right_start + 50))):
                    f = F.Feature(seqid="c", source="s", featuretype="exon", start=a, end=b, strand="+", attributes={"ID": ["e%d" % i], "Parent": ["t"]})
                    feats.append(f)
                feats.append(F.Feature(seqid="c", source="s", featuretype="mRNA", start=left_end - 50, end=right_start + 50, strand="+", attributes={"ID": ["t"]}))
                try:
                    db = gffutils.create_db(feats, ":memory:")
                    out = [("row", f) for f in db.all_features()]
                    out += [("interfeature", f) for f in db.interfeatures(db.features_of_type("exon", order_by="start"))]
                    out += [("intron", f) for f in db.create_introns()]
                    out += [("merged", f) for f in db.merge(db.features_of_type("exon", order_by="start"))]
                    out += [("child", f) for f in db.children("t", order_by="start")]
                    out += [("region", f) for f in db.region(("c", left_end - 10, right_start + 10))]
                    for kind, f in out:
                        cases += 1
                        exp = S.bin1(f.start, f.end, "gff")
                        if f.bin != exp:
                            fails.append({"case": {"kind": kind, "start": f.start, "end": f.end, "exons": [(x.start, x.end) for x in feats[:2]]}, "expected": exp, "observed": f.bin})
                except Exception as e:
                    cases += 1
                    fails.append({"case": {"exons": [(x.start, x.end) for x in feats[:2]]}, "expected": "no exception", "observed": repr(e)})
    U.bounded_result("C12.bounded.handed_out", "Features handed out or derived by a FeatureDB (rows, interfeatures, introns, merged, children, region) have bin == bins(start, end)",
                     "two exons whose gap begins / ends within -2..+2 of a multiple of 2**17, 2**20, 2**23; 6 kinds of Feature source", cases, fails)


UNITS = [("bounded.handed_out", unit_handed_out), ("bins[gff,one]", _unit_bins("gff", True)), ("bins[gff,set]", _unit_bins("gff", False)),
         ("bins[bed,one]", _unit_bins("bed", True)), ("bins[bed,set]", _unit_bins("bed", False)),
         ("lemma.nest", unit_nest), ("init_bin", unit_init_bin), ("calc_bin", unit_calc_bin), ("calc_bin_twice", unit_calc_bin_twice), ("bins_twice", unit_bins_twice), ("print_bin_sizes", unit_print_bin_sizes), ("stored_bin", unit_stored_bin), ("stored_bin_gtf_finish", unit_stored_bin_gtf_finish),
         ("bounded.boundaries", unit_boundary)]


def replay_file(doc):
    inp = doc.get("inputs") or {}
    if "f_start" in inp:
        one = B.bins(inp["f_start"], inp["f_end"], fmt=inp.get("fmt", "gff"), one=True)
        st = B.bins(inp["q_start"], inp["q_end"], fmt=inp.get("fmt", "gff"), one=False)
        return {"observed": "%r in %d bins" % (one, len(st)), "violates": one not in st}
    if "start" in inp and "stop" in inp:
        name = doc["obligation"].split(".")[2].split("[")[0]
        if inp.get("clause"):
            name = inp["clause"]
        if name == "Feature.bin":
            f = F.Feature(start=inp["start"], end=inp["stop"])
            return {"observed": f.bin, "violates": f.bin != S.bin1(inp["start"], inp["stop"], "gff")}
        try:
            h, obs = _native_bins_clause(name, inp["start"], inp["stop"], inp.get("fmt", "gff"), inp.get("one", True))
        except KeyError:
            h, obs = _native_bins_clause("one_level", inp["start"], inp["stop"], inp.get("fmt", "gff"), True)
        return {"observed": obs, "violates": not h}
    return {"error": "unrecognised replay document", "violates": None}
