"""C03 - GTF import infers exact gene/transcript extents and the three-level hierarchy."""
import itertools
import sqlite3
import z3

import gffutils
import gffutils.create as C
import gffutils.feature as F
import gffutils.helpers as H
import gffutils.bins as B
import gffutils.interface as I
import gffutils.iterators as IT
from gffutils import constants
from gffutils.attributes import Attributes

from pyvc.core import SInt, SStr, SSeq, Val, Lit, IntLit, Undecided, Ctx, mkstr
from pyvc.interp import Interp
from pyvc import ghostdb, sqlmodel as Q
from contracts.common import bins_contract, blank_feature
from contracts import importer as IM
from contracts import spec_query as SQ
from contracts import spec_bins as SB
from contracts import pipeline as PL
from props.C04 import _streq

LEVEL = "other"
EXPLANATION = ("PROVED (z3): the relation block of _GTFDBCreator._populate_from_lines for an arbitrary line (transcript/gene key present, "
               "absent, with empty value lists; arbitrary featuretype incl. explicit 'gene'/'transcript' lines): the inserted rows are "
               "exactly (t, key, 1), (g, key, 2), (g, t, 1) and no row relates a feature to itself; _GTFDBCreator._update_relations: both "
               "flags set => no effect at all; otherwise for an arbitrary (transcript, gene) pair of the driving query the extent queries "
               "select exactly the children of that id with featuretype == subfeature, the derived line carries MIN(start)/MAX(end), the "
               "children's seqid/strand, featuretype transcript/gene, bin = bins(start,end), attributes {transcript_key:[t], gene_key:[g]} "
               "resp. {gene_key:[g]}, survives the temp-file round trip into Feature(**d), is keyed by the id and inserted (collision -> "
               "_do_merge(.., 'merge'), C05 bounded); a transcript line is written iff not disable_infer_transcripts, a gene line iff not "
               "disable_infer_genes and the gene differs from the previous row's (rows ordered by gene); the temp file is removed; "
               "create_db routes to the GTF importer iff the dialect's fmt is 'gtf' and not force_gff, with the default id_spec and the "
               "custom keys forwarded.  BOUNDED: the driving query's text against its set comprehension on random tables in real sqlite; "
               "whole-file imports (genes x transcripts x exons, all interleavings) through the real create_db.")
TRUSTED = ["T1", "T3", "contracts/importer.py, contracts/pipeline.py"]
ASSUMPTIONS = ["A-S1 sqlite aggregates MIN/MAX over the joined set; bare columns of an aggregate query come from some row of the set", "A-J JSON round trip",
               "A-P temp file returns written lines", "transcript/gene ids, seqid and strand contain no white space"]
PRECONDITIONS = ["ids without white space"]
FUNCTIONS = ["gffutils.create:_GTFDBCreator._populate_from_lines", "gffutils.create:_GTFDBCreator._update_relations", "gffutils.create:_GTFDBCreator.__init__", "gffutils.create:create_db"]

GTF_SPEC = {"gene": "gene_id", "transcript": "transcript_id"}


def _interp():
    it = Interp()
    it.contracts[B.bins] = bins_contract
    IM.install_json(it)
    fs = IM.GhostFS()
    fs.install(it)
    return it, fs


def native_gtf(lines, **kw):
    feats = []
    d = dict(constants.dialect, fmt="gtf")
    d.update({"quoted GFF2 values": True, "keyval separator": " ", "field separator": "; ", "trailing semicolon": True})
    for (ft, s, e, attrs) in lines:
        feats.append(F.Feature(seqid="c", source="s", featuretype=ft, start=s, end=e, strand="+", attributes={k: [v] for k, v in attrs.items()}, dialect=d))
    db = gffutils.create_db(feats, ":memory:", dialect=d, **kw)
    rel = set(tuple(r) for r in db.conn.execute("SELECT parent, child, level FROM relations"))
    return db, rel


def unit_block(U):
    shapes = [("both", True, True), ("gene-only", False, True), ("transcript-only", True, False), ("neither", False, False), ("empty-lists", "empty", "empty")]
    for name, has_t, has_g in shapes:
        it, fs = _interp()
        tid, tv = IM.sval("f.transcript_id")
        gid, gv = IM.sval("f.gene_id")
        ftv = z3.String("f.featuretype")

        def run(ctx, has_t=has_t, has_g=has_g):
            attrs = {}
            if has_g:
                attrs["gene_id"] = [] if has_g == "empty" else [gid]
            if has_t:
                attrs["transcript_id"] = [] if has_t == "empty" else [tid]
            f, fv = IM.sym_feature("f", attrs)
            cnt = IM.SymMap("cnt")
            cr = IM.blank_creator(C._GTFDBCreator, ghostdb.GhostConn(), id_spec=dict(GTF_SPEC), counters=cnt)
            ctx.stash.update(f=f)
            it.call(C._GTFDBCreator._populate_from_lines, [cr, [f]], {})
            return f

        def replay(m, name=name):
            ft = m.get("f.featuretype", "exon")
            ft = ft if ft in ("gene", "transcript") else "exon"
            attrs = {}
            same = m.get("f.gene_id") is not None and m.get("f.gene_id") == m.get("f.transcript_id")
            if name in ("both", "gene-only"):
                attrs["gene_id"] = "x1" if same else "g1"
            if name in ("both", "transcript-only"):
                attrs["transcript_id"] = "x1" if same else "t1"
            try:
                db, rel = native_gtf([(ft, 5, 9, attrs)], disable_infer_genes=True, disable_infer_transcripts=True)
            except Exception as e:
                return {"inputs": [ft, attrs], "observed": "raised %r" % (e,), "violates": True}
            key = [f.id for f in db.all_features()][0]
            exp = set()
            t, g = attrs.get("transcript_id"), attrs.get("gene_id")
            if t and t != key:
                exp.add((t, key, 1))
            if g and g != key and t != key:
                exp.add((g, key, 2))
            if t and g and t != g:
                exp.add((g, t, 1))
            selfrel = [r for r in rel if r[0] == r[1]]
            return {"inputs": {"featuretype": ft, "attributes": attrs, "key": key}, "expected": sorted(exp), "observed": sorted(rel), "violates": rel != exp or bool(selfrel)}
        base = "C03.gtf.step[%s]" % name
        for p in U.explore(run, it):
            vars_ = {"f.featuretype": ftv, "f.gene_id": gv, "f.transcript_id": tv}
            if p.kind != "return":
                U.prove(base + ".noraise#p%d" % p.index, "raises nothing (got %r)" % (p.value,), p.pc, z3.BoolVal(False), vars_, replay=replay)
                continue
            f = p.value
            effs = IM.classify(p.ctx.effects)
            rel = [e for e in effs if e.table == "relations" and e.kind in ("insert", "update", "delete")]
            rows = []
            okshape = True
            for e in rel:
                if e.kind != "insert":
                    okshape = False
                    continue
                t_, conflict, cols, _v = IM.insert_values(e, list(e.args[0])) if (e.how == "executemany" and e.args) else (None, "IGNORE", None, None)
                if e.how == "executemany":
                    for a in e.args:
                        vals = IM.insert_values(e, list(a))[3]
                        rows.append(dict(zip(cols or Q.TABLE_COLS["relations"], vals)))
                else:
                    t_, conflict, cols, vals = IM.insert_values(e)
                    rows.append(dict(zip(cols or Q.TABLE_COLS["relations"], vals)))
                if conflict != "IGNORE":
                    okshape = False
            T = tid if has_t is True else None
            G = gid if has_g is True else None
            key = f.id
            keyz = SStr.of(key).z3()
            pp, cc, ll = z3.String("rel.parent"), z3.String("rel.child"), z3.Int("rel.level")
            spec = []
            tdef = T is not None
            gdef = G is not None
            t_ne_key = (tv != keyz) if tdef else z3.BoolVal(True)
            if tdef:
                spec.append(z3.And(tv != keyz, pp == tv, cc == keyz, ll == 1))
            if gdef:
                spec.append(z3.And(gv != keyz, t_ne_key, pp == gv, cc == keyz, ll == 2))
            if tdef and gdef:
                spec.append(z3.And(tv != gv, pp == gv, cc == tv, ll == 1))
            have = [z3.And(Q._term(r["parent"]) == pp, Q._term(r["child"]) == cc, Q._term(r["level"]) == ll) for r in rows]
            lhs = z3.Or(*have) if have else z3.BoolVal(False)
            rhs = z3.Or(*spec) if spec else z3.BoolVal(False)
            U.prove(base + ".rows#p%d" % p.index, "inserted relation rows (as a set) are exactly (t, key, 1) [t != key], (g, key, 2) [g != key and t != key], (g, t, 1) [t != g] for the ids present; inserted with OR IGNORE; nothing else touches relations",
                    list(p.pc) + ([z3.And(tv != keyz, gv != keyz)] if (isinstance(key, SStr) and any(isinstance(a_, IntLit) for a_ in key.atoms)) else []),
                    z3.And(z3.BoolVal(okshape), lhs == rhs), dict(vars_, **{"rel.parent": pp, "rel.child": cc, "rel.level": ll}), replay=replay)
            noself = [z3.Not(Q._term(r["parent"]) == Q._term(r["child"])) for r in rows]
            hy = []
            is_auto = isinstance(key, SStr) and any(isinstance(a_, IntLit) for a_ in key.atoms)
            if keyz is not None and is_auto:
                hy.append(z3.And(tv != keyz, gv != keyz))       # ids in the file differ from generated '<featuretype>_<n>' keys
            U.prove(base + ".noself#p%d" % p.index, "no inserted row relates a feature to itself (explicit gene / transcript lines are never their own parent or child); a transcript line is a level-1 child of its gene only",
                    list(p.pc) + hy, z3.And(*noself) if noself else z3.BoolVal(True), vars_, replay=replay)
    from pyvc.harness import require_loop_state
    require_loop_state(C._GTFDBCreator._populate_from_lines, {0: ("lines_seen",)}, "the generic-row rule (C03.gtf.step)")


def _finish_run(it, dis_g, dis_t, nrows, same_gene, keep=False, on_execute=None, id_spec=None):
    def run(ctx):
        rows = []
        for i in range(nrows):
            t, tv_ = IM.sval("t%d" % i)
            g, gv_ = IM.sval("g%d" % (0 if same_gene else i))
            rows.append((t, g))
        if nrows == 2 and not same_gene:
            ctx.assume(rows[0][1].z3() != rows[1][1].z3())
        ext = {}
        state = {"queries": []}

        def result_for(cur, kind, q, args):
            st = Q.parse(q)
            if st.kind != "select":
                return []
            si = Q.select_info(st.node)
            state["queries"].append((st, si, args))
            if si.source[0] == "sub":
                return [ghostdb.GhostRow(["firstlevel.parent", "relations.parent"], [t, g]) for (t, g) in rows]
            n = len(ext)
            mn, mx = SInt(z3.Int("ext%d.min" % n)), SInt(z3.Int("ext%d.max" % n))
            ctx.assume(mn.e <= mx.e)
            strand, _ = IM.sval("ext%d.strand" % n)
            seqid, _ = IM.sval("ext%d.seqid" % n)
            ext[n] = (args, mn, mx, strand, seqid)
            return [ghostdb.GhostRow(["MIN(start)", "MAX(end)", "strand", "seqid"], [mn, mx, strand, seqid])]
        conn = ghostdb.GhostConn(result_for=result_for, on_execute=on_execute(ctx) if on_execute else None)
        cr = IM.blank_creator(C._GTFDBCreator, conn, id_spec=dict(GTF_SPEC) if id_spec is None else id_spec, counters=IM.SymMap("cnt"), disable_infer_genes=dis_g, disable_infer_transcripts=dis_t,
                              _keep_tempfiles=keep)
        ctx.stash.update(rows=rows, ext=ext, state=state, cr=cr)
        it.call(C._GTFDBCreator._update_relations, [cr], {})
        return None
    return run


def _native_finish_replay(m=None):
    lines = [("exon", 10, 20, {"gene_id": "g1", "transcript_id": "t1"}), ("exon", 40, 50, {"gene_id": "g1", "transcript_id": "t1"}),
             ("CDS", 2, 60, {"gene_id": "g1", "transcript_id": "t1"}), ("exon", 100, 120, {"gene_id": "g1", "transcript_id": "t2"}),
             ("exon", 300, 320, {"gene_id": "g2", "transcript_id": "t3"})]
    out = {}
    bad = False
    for dg, dt in itertools.product((False, True), repeat=2):
        db, rel = native_gtf(lines, disable_infer_genes=dg, disable_infer_transcripts=dt)
        got = sorted((f.id, f.featuretype, f.start, f.end, f.seqid, f.strand) for f in db.all_features() if f.featuretype in ("gene", "transcript"))
        exp = []
        if not dg:
            exp += [("g1", "gene", 10, 120, "c", "+"), ("g2", "gene", 300, 320, "c", "+")]
        if not dt:
            exp += [("t1", "transcript", 10, 50, "c", "+"), ("t2", "transcript", 100, 120, "c", "+"), ("t3", "transcript", 300, 320, "c", "+")]
        out[(dg, dt)] = got
        if got != sorted(exp):
            bad = True
    return {"inputs": "2 genes, 3 transcripts, a CDS outside the exon span; all four flag combinations", "observed": {str(k): v for k, v in out.items()}, "violates": bad}


def unit_finish(U):
    for dis_g, dis_t in itertools.product((False, True), repeat=2):
        for nrows, same_gene in ((1, True), (2, True), (2, False)):
            if dis_g and dis_t and nrows != 1:
                continue
            it, fs = _interp()
            run = _finish_run(it, dis_g, dis_t, nrows, same_gene)
            base = "C03.gtf.finish[dis_genes=%s,dis_transcripts=%s,rows=%d%s]" % (dis_g, dis_t, nrows, ",same_gene" if (same_gene and nrows == 2) else "")
            replay = _native_finish_replay
            for p in U.explore(run, it):
                if p.kind != "return":
                    U.prove(base + ".noraise#p%d" % p.index, "raises nothing (got %r)" % (p.value,), p.pc, z3.BoolVal(False), {}, replay=replay)
                    continue
                st = p.ctx.stash
                effs = IM.classify(p.ctx.effects)
                if dis_g and dis_t:
                    U.prove(base + ".noop#p%d" % p.index, "both inferences disabled ==> no statement, no temp file, no effect at all", [], z3.BoolVal(not p.ctx.effects), {}, replay=replay)
                    continue
                rows, ext = st["rows"], st["ext"]
                ins = [e for e in effs if e.kind == "insert" and e.table == "features"]
                # expected derived features, in order
                want = []
                last = None
                k = 0
                for (t, g) in rows:
                    if not dis_t:
                        want.append(("transcript", t, g, k))
                        k += 1
                    if not dis_g:
                        if last is None or (not same_gene):
                            want.append(("gene", t, g, k))
                            k += 1
                        last = g
                okn = len(ins) == len(want) and len(ext) == len(want)
                U.prove(base + ".flags#p%d" % p.index, "a transcript line per driving row iff not disable_infer_transcripts; a gene line iff not disable_infer_genes, once per gene (rows ordered by gene)",
                        p.pc, z3.BoolVal(okn), {}, replay=replay)
                if not okn:
                    continue
                frow, rrow, rvars = SQ.sym_feature_and_relation()
                goals = []
                for (kind, t, g, j), e in zip(want, ins):
                    args, mn, mx, strand, seqid = ext[j]
                    ident = t if kind == "transcript" else g
                    # extent query arguments and predicate
                    goals.append(z3.BoolVal(len(args) == 2 and args[0] is ident and args[1] == "exon"))
                    a = list(e.args)
                    okrow = len(a) == 12
                    if not okrow:
                        goals.append(z3.BoolVal(False))
                        continue
                    goals.append(z3.And(_streq(a[0], ident), _streq(a[1], seqid), _streq(a[2], "gffutils_derived"), _streq(a[3], kind),
                                        a[4].e == mn.e if isinstance(a[4], SInt) else z3.BoolVal(False), a[5].e == mx.e if isinstance(a[5], SInt) else z3.BoolVal(False),
                                        _streq(a[6], "."), _streq(a[7], strand), _streq(a[8], "."),
                                        a[11].e == SB.bin1(mn.e, mx.e, "gff") if isinstance(a[11], SInt) else z3.BoolVal(False)))
                    try:
                        attrs = IM.json_unhole(a[9])
                        d = attrs._d if isinstance(attrs, Attributes) else attrs
                        if kind == "transcript":
                            goals.append(z3.And(z3.BoolVal(set(d) == {"transcript_id", "gene_id"} and len(d["transcript_id"]) == 1 and len(d["gene_id"]) == 1),
                                                _streq(d["transcript_id"][0], t), _streq(d["gene_id"][0], g)))
                        else:
                            goals.append(z3.And(z3.BoolVal(set(d) == {"gene_id"} and len(d["gene_id"]) == 1), _streq(d["gene_id"][0], g)))
                    except (Undecided, KeyError, TypeError):
                        goals.append(z3.BoolVal(False))
                U.prove(base + ".derived#p%d" % p.index,
                        "each derived feature: id = the transcript/gene id, start/end = MIN(start)/MAX(end) of the extent query for that id, seqid/strand of those children, featuretype, source gffutils_derived, bin = bins(start,end), attributes {transcript_key:[t], gene_key:[g]} / {gene_key:[g]} - after the temp-file round trip",
                        p.pc, z3.And(*goals), {}, replay=replay)
                # extent query predicate: children (any level) of the id whose featuretype is the subfeature
                qs = [q for q in st["state"]["queries"] if q[1].source[0] == "table"]
                g2 = []
                for (stm, si, args) in qs:
                    cols = Q.select_cols(si)
                    try:
                        rows_ = {"features": frow, "relations": rrow}
                        env = Q.RowEnv(rows_, list(args), stm.holes)
                        conds = [Q._zb(Q.as_tv(Q.eval_expr(on, env)).t) for jt, on in si.joins]
                        conds.append(Q._zb(Q.as_tv(Q.eval_expr(si.where, env)).t))
                        spec = z3.And(rrow["child"].term == frow["id"].term, rrow["parent"].term == IM.zs(args[0]), frow["featuretype"].term == z3.StringVal("exon"))
                        g2.append(z3.And(z3.And(*conds) == spec, z3.BoolVal([c.replace("features.", "") for c in cols] == ["min(start)", "max(end)", "strand", "seqid"] and env.pos == len(env.args)
                                                                           and si.source[1] == "features" and [j for j, _ in si.joins] == ["relations"])))
                    except (Q.SQLArgs, Q.SQLSyntax, Undecided):
                        g2.append(z3.BoolVal(False))
                U.prove(base + ".extent_query#p%d" % p.index, "the extent query aggregates MIN(start), MAX(end) over exactly the children (any level) of the id with featuretype == subfeature",
                        p.pc, z3.And(*g2) if g2 else z3.BoolVal(False), rvars, replay=replay)
                created = [x.args[0] for x in effs if x.kind == "tmp-create"]
                unlinked = [x.args[0] for x in effs if x.kind == "unlink"]
                U.prove(base + ".tempfile#p%d" % p.index, "the temp file is created once and removed", [], z3.BoolVal(len(created) == 1 and unlinked == created), {}, replay=replay)
    from pyvc.harness import require_loop_state
    require_loop_state(C._GTFDBCreator._update_relations, {0: ("last_perc",), 1: ("last_gene_id", "n_features"), 2: ()}, "the generic-row rule (C03.gtf.finish)")


def unit_route(U, prefix="C03"):
    """create_db picks the importer by the dialect's fmt / force_gff, default id_spec per format, custom keys forwarded"""
    for fmt, force_gff, custom, flags in (("gtf", False, False, None), ("gtf", False, True, None), ("gtf", True, False, None), ("gff3", False, False, None),
                                          ("gtf", False, False, (True, False)), ("gtf", False, False, (False, True)),
                                          ("gtf", False, False, "dialect"), ("gff3", False, False, "dialect")):
        it = Interp()

        def run(ctx, fmt=fmt, force_gff=force_gff, custom=custom, flags=flags):
            dialect = dict(constants.dialect, fmt=fmt)
            lines, info = PL.make_lines("F")
            tables = PL.GhostTables()
            PL.install(it, lines, tables, dialect=dialect)
            made = []

            class Creator(C._DBCreator):
                _pyvc_model = True

                def __init__(self, name, kw):
                    self.name, self.kw = name, kw
                    self.conn = ghostdb.GhostConn(result_for=lambda cur, kind, q, a: [ghostdb.GhostRow(["version", "dialect"], ["1", IM.OpaqueJSON(dialect)])] if "META" in str(q).upper() else [])
                    self.dbfn = kw.get("dbfn")
                    made.append(self)

                def create(self):
                    pass
            it.contracts[C._GFFDBCreator] = lambda interp, a, k: Creator("gff", k)
            it.contracts[C._GTFDBCreator] = lambda interp, a, k: Creator("gtf", k)
            kw = {"force_gff": force_gff}
            if custom:
                kw.update(gtf_transcript_key="tx", gtf_gene_key="gn", gtf_subfeature="CDS", id_spec={"gene": "gn"})
            given = None
            if flags == "dialect":
                # an explicitly supplied dialect (unlike anything inference would produce) is the one the lines are parsed with
                given = dict(constants.dialect, fmt=fmt, **{"field separator": " | ", "order": ["zz"]})
                kw["dialect"] = given
                ctx.stash["given"] = given
            elif flags is not None:
                kw.update(disable_infer_genes=flags[0], disable_infer_transcripts=flags[1])
            it.call(C.create_db, ["/ghost/in.gff", "/ghost/out.db"], kw)
            return made
        for p in U.explore(run, it):
            ok = p.kind == "return" and len(p.value) == 1
            if ok:
                c = p.value[0]
                if fmt == "gtf" and not force_gff:
                    ok = c.name == "gtf" and c.kw.get("transcript_key") == ("tx" if custom else "transcript_id") and c.kw.get("gene_key") == ("gn" if custom else "gene_id") \
                        and c.kw.get("subfeature") == ("CDS" if custom else "exon") and c.kw.get("id_spec") == ({"gene": "gn"} if custom else {"gene": "gene_id", "transcript": "transcript_id"})
                else:
                    ok = c.name == "gff" and c.kw.get("id_spec") == "ID"
                ok = ok and c.kw.get("checklines") == 0 and isinstance(c.kw.get("data"), IT._BaseIterator) and c.kw.get("dialect", {}).get("fmt") == fmt
                # the two switches reach the importer as the caller gave them (default: both off), whatever the lines look like
                want = flags if isinstance(flags, tuple) else (False, False)
                ok = ok and c.kw.get("disable_infer_genes", False) is want[0] and c.kw.get("disable_infer_transcripts", False) is want[1]
                if flags == "dialect":
                    g = p.ctx.stash.get("given")
                    ok = ok and c.kw.get("dialect") == g and getattr(c.kw.get("data"), "dialect", None) == g
            def replay(m, fmt=fmt, force_gff=force_gff, custom=custom, flags=flags):
                if custom:
                    return {"violates": False, "note": "custom keys: no native replay"}
                if flags == "dialect":
                    # one attribute per line: separator, repeated keys and key order are not observable, only the given dialect says them
                    import warnings
                    text = ('c\ts\texon\t5\t20\t.\t+\t.\tgene_id "G1";\n' if fmt == "gtf" else "c\ts\tgene\t1\t90\t.\t+\t.\tID=G1\n")
                    D = dict(constants.dialect, fmt=fmt)
                    D.update({"field separator": " ; ", "repeated keys": True, "order": ["zz", "gene_id", "ID"], "trailing semicolon": fmt == "gtf",
                              "keyval separator": " " if fmt == "gtf" else "=", "quoted GFF2 values": fmt == "gtf"})
                    with warnings.catch_warnings():
                        warnings.simplefilter("ignore")
                        db = gffutils.create_db(text, ":memory:", from_string=True, dialect=dict(D, order=list(D["order"])))
                    got = dict(db.dialect)
                    return {"inputs": {"text": text, "dialect": D}, "expected": D, "observed": got, "violates": got != D}
                if fmt == "gtf":
                    text = 'c\ts\tgene\t1\t90\t.\t+\t.\tgene_id "G1";\nc\ts\ttranscript\t1\t90\t.\t+\t.\tgene_id "G1"; transcript_id "T1";\nc\ts\texon\t5\t20\t.\t+\t.\tgene_id "G1"; transcript_id "T1";\n'
                    exp = ["exon_1", "gene_1", "transcript_1"] if force_gff else ["G1", "T1", "exon_1"]
                else:
                    text = "c\ts\tgene\t1\t90\t.\t+\t.\tID=G1\nc\ts\texon\t5\t20\t.\t+\t.\tParent=G1\n"
                    exp = ["G1", "exon_1"]
                import warnings
                with warnings.catch_warnings():
                    warnings.simplefilter("ignore")
                    db = gffutils.create_db(text, ":memory:", from_string=True, force_gff=force_gff, disable_infer_genes=True, disable_infer_transcripts=True)
                got = sorted(f.id for f in db.all_features())
                if got == exp and fmt == "gtf" and not force_gff:
                    # a file where only SOME genes / transcripts have their own line: the others are still derived
                    text = ('c\ts\tgene\t1\t90\t.\t+\t.\tgene_id "G1";\nc\ts\ttranscript\t1\t90\t.\t+\t.\tgene_id "G1"; transcript_id "T1";\n'
                            'c\ts\texon\t5\t20\t.\t+\t.\tgene_id "G1"; transcript_id "T1";\nc\ts\texon\t105\t120\t.\t+\t.\tgene_id "G2"; transcript_id "T2";\n')
                    exp = ["G1", "G2", "T1", "T2", "exon_1", "exon_2"]
                    with warnings.catch_warnings():
                        warnings.simplefilter("ignore")
                        db = gffutils.create_db(text, ":memory:", from_string=True)
                    got = sorted(f.id for f in db.all_features())
                return {"inputs": {"text": text, "force_gff": force_gff}, "expected": exp, "observed": got, "violates": got != exp}
            U.prove("%s.create_db.route[%s,force_gff=%s,custom=%s%s]#p%d" % (prefix, fmt, force_gff, custom, "" if flags is None else (",dialect=given" if flags == "dialect" else ",disable=%s/%s" % flags), p.index),
                    "the GTF importer is used iff the dialect's fmt is 'gtf' and not force_gff, with the default id_spec {gene: gene_id, transcript: transcript_id} (GFF3: 'ID'), the custom keys/subfeature forwarded and disable_infer_genes / disable_infer_transcripts passed on exactly as given (default off); a dialect given explicitly is the dialect of the iterator that parses the lines and of the importer",
                    [], z3.BoolVal(bool(ok)), {}, replay=replay)


def unit_driving_query(U):
    """Bounded: the text of the driving query (read from the code's effect log) against its set comprehension on random tables in real sqlite"""
    it, fs = _interp()
    got = {}

    def run(ctx):
        def result_for(cur, kind, q, args):
            st = Q.parse(q)
            if st.kind == "select" and Q.select_info(st.node).source[0] == "sub":
                got["q"], got["a"] = q, list(args)
            return []
        cr = IM.blank_creator(C._GTFDBCreator, ghostdb.GhostConn(result_for=result_for), id_spec=dict(GTF_SPEC), subfeature="exon")
        it.call(C._GTFDBCreator._update_relations, [cr], {})
    list(U.explore(run, it))
    fails, cases = [], 0
    rng = U.rng
    n = 400 if U.thorough else 80
    for _ in range(n):
        conn = sqlite3.connect(":memory:")
        conn.executescript(constants.SCHEMA)
        feats = {}
        for i in range(rng.randint(1, 7)):
            feats["f%d" % i] = rng.choice(["exon", "exon", "CDS", "transcript", "gene"])
        for fid, ft in feats.items():
            conn.execute("INSERT INTO features (id, featuretype) VALUES (?, ?)", (fid, ft))
        names = list(feats) + ["t1", "t2", "g1", "g2"]
        rel = set()
        for _k in range(rng.randint(0, 12)):
            rel.add((rng.choice(names), rng.choice(names), rng.choice([1, 1, 2])))
        conn.executemany("INSERT INTO relations VALUES (?,?,?)", sorted(rel))
        real = list(conn.execute(got["q"], tuple(got["a"])))
        exp = sorted({(t, g) for (t, c, l) in rel if l == 1 and feats.get(c) == "exon" for (g, t2, l2) in rel if t2 == t and l2 == 1}, key=lambda x: x[1])
        cases += 1
        if sorted(map(tuple, real)) != sorted(exp) or [r[1] for r in real] != sorted(r[1] for r in real):
            fails.append({"case": {"features": feats, "relations": sorted(rel)}, "expected": exp, "observed": [tuple(r) for r in real]})
        conn.close()
    U.bounded_result("C03.bounded.driving_query", "driving query == {(t, g) | t has a level-1 child of type subfeature and (g, t, 1) in relations}, each once, ordered by g",
                     "%d random databases (<= 7 features, <= 12 relation rows) in real sqlite3; query text taken from the executed statement" % n, cases, fails)


def unit_finish_collision(U):
    """the derived gene/transcript of an id that an explicit line of the file already holds: the explicit line stays
    the single feature under that id - whatever _do_merge answers (merged into it, or no candidate), no further row is
    inserted into features"""
    import sqlite3
    for answer in ("merge", "create_unique"):
        it, fs = _interp()
        def mk_on_execute(ctx):
            state = {"n": 0}

            def on_execute(cur, q, a):
                st = Q.parse(q)
                if st.kind == "insert" and IM.insert_info(st.node)[0] == "features":
                    state["n"] += 1
                    if state["n"] == 1:
                        raise sqlite3.IntegrityError("UNIQUE constraint failed: features.id")
            return on_execute
        inner = _finish_run(it, False, True, 1, True, on_execute=mk_on_execute)          # one driving row, gene inference on

        def run(ctx, answer=answer):
            def do_merge(interp, a, k):
                f = a[1]
                if answer == "merge":
                    return (f, "merge")
                # no candidate: _do_merge renames the newcomer to '<id>_1' and answers create_unique (contract C05.do_merge.*)
                f.id = SStr(list(SStr.of(f.id).atoms) + [Lit("_1")])
                return (f, "create_unique")
            it.contracts[C._DBCreator._do_merge] = do_merge
            return inner(ctx)

        def replay(m):
            lines = [("gene", 5, 90, {"gene_id": "g1"}), ("transcript", 5, 90, {"gene_id": "g1", "transcript_id": "t1"}),
                     ("exon", 10, 20, {"gene_id": "g1", "transcript_id": "t1"}), ("exon", 40, 50, {"gene_id": "g1", "transcript_id": "t1"})]
            out, bad = {}, False
            for dg, dt in itertools.product((False, True), repeat=2):
                import warnings
                with warnings.catch_warnings():
                    warnings.simplefilter("ignore")
                    db, rel = native_gtf(lines, disable_infer_genes=dg, disable_infer_transcripts=dt)
                got = sorted((f.id, f.featuretype) for f in db.all_features() if f.featuretype in ("gene", "transcript"))
                out[str((dg, dt))] = got
                if got != [("g1", "gene"), ("t1", "transcript")]:
                    bad = True
            return {"inputs": "explicit gene and transcript lines + 2 exons; all four flag combinations", "expected": [("g1", "gene"), ("t1", "transcript")], "observed": out, "violates": bad}
        base = "C03.gtf.finish[explicit-line,do_merge=%s]" % answer
        for p in U.explore(run, it):
            if p.kind != "return":
                U.prove(base + ".noraise#p%d" % p.index, "raises nothing (got %r)" % (p.value,), p.pc, z3.BoolVal(False), {}, replay=replay)
                continue
            effs = IM.classify(p.ctx.effects)
            ins = [e for e in effs if e.kind == "insert" and e.table == "features"]
            dels = [e for e in effs if e.kind == "delete" and e.table == "features"]
            U.prove(base + ".single#p%d" % p.index, "the INSERT of the derived feature collides with the explicit line ==> no other row is inserted into (or deleted from) features: the explicit line stays the single feature under its id",
                    [], z3.BoolVal(len(ins) == 1 and not dels), {}, replay=replay)


def unit_bounded_verbose(U):
    """Bounded: progress reporting does not take part in the import: create_db(..., verbose=True) on a file large enough for
    the percentage counters to repeat (160 transcripts / 80 genes; a GFF3 file of 300 features) gives the same database as
    verbose=False"""
    import io
    import contextlib
    import warnings
    import logging
    fails, cases = [], 0
    gtf, gff = [], []
    for g in range(80):
        for t in range(2):
            for x in range(2):
                a = 1000 * g + 100 * t + 20 * x + 1
                gtf.append('c%d\ts\texon\t%d\t%d\t.\t+\t.\tgene_id "G%03d"; transcript_id "G%03d.T%d";' % (g % 3, a, a + 9, g, g, t))
        gff.append("c\ts\tgene\t%d\t%d\t.\t+\t.\tID=g%d" % (1000 * g + 1, 1000 * g + 500, g))
        gff.append("c\ts\tmRNA\t%d\t%d\t.\t+\t.\tID=m%d;Parent=g%d" % (1000 * g + 1, 1000 * g + 500, g, g))
        gff.append("c\ts\texon\t%d\t%d\t.\t+\t.\tID=e%d;Parent=m%d" % (1000 * g + 1, 1000 * g + 100, g, g))

    def snapshot(db):
        return (sorted((f.id, f.featuretype, f.seqid, f.start, f.end, f.strand) for f in db.all_features()),
                sorted(tuple(r) for r in db.execute("SELECT parent, child, level FROM relations")))
    lvl = logging.getLogger("gffutils.create").level
    try:
        for name, text in (("gtf", "\n".join(gtf) + "\n"), ("gff3", "\n".join(gff) + "\n")):
            with warnings.catch_warnings():
                warnings.simplefilter("ignore")
                with contextlib.redirect_stderr(io.StringIO()):
                    quiet = snapshot(gffutils.create_db(text, ":memory:", from_string=True, verbose=False))
                for verbose in (True, "debug"):
                    cases += 1
                    try:
                        with contextlib.redirect_stderr(io.StringIO()):
                            loud = snapshot(gffutils.create_db(text, ":memory:", from_string=True, verbose=verbose))
                    except Exception as e:
                        fails.append({"case": {"format": name, "verbose": verbose}, "expected": "the database of verbose=False", "observed": repr(e)})
                        continue
                    if loud != quiet:
                        missing = sorted(set(quiet[0]) - set(loud[0]))[:5]
                        fails.append({"case": {"format": name, "verbose": verbose, "features": len(quiet[0])}, "expected": "the database of verbose=False (%d features, %d relations)" % (len(quiet[0]), len(quiet[1])),
                                      "observed": "%d features, %d relations; missing e.g. %r" % (len(loud[0]), len(loud[1]), missing)})
    finally:
        logging.getLogger("gffutils.create").setLevel(lvl)
    U.bounded_result("C03.bounded.verbose", "create_db(verbose=True / 'debug') stores the same features and relations as verbose=False",
                     "a GTF file of 320 exon lines (80 genes x 2 transcripts; 240 inferred features) and a GFF3 file of 240 lines, verbose True and 'debug'", cases, fails)


def unit_gtf_init(U):
    """the GTF importer keeps the custom keys and the subfeature type exactly as given (they are compared with attribute keys and
    with the featuretype column as they stand): _GTFDBCreator.__init__ with symbolic strings stores those very strings"""
    _unit_gtf_init1(U, "symbolic")


def unit_gtf_init_for(prefix):
    def unit(U):
        _unit_gtf_init1(U, "awkward", prefix=prefix)
    return unit


def unit_gtf_init_awkward(U):
    """the same clause on concrete strings that any folding / trimming / normalising would change (decides also where the
    symbolic run is beyond the string models)"""
    _unit_gtf_init1(U, "awkward")


def _unit_gtf_init1(U, variant, prefix="C03"):
    it = Interp()
    if variant == "symbolic":
        tk, gk, sf = (SStr([Val(z3.String(n), nonempty=True)]) for n in ("transcript_key", "gene_key", "subfeature"))
    else:
        # concrete strings that any folding / trimming / normalising would change
        tk, gk, sf = "Isoform_ID ", " Locus Tag", "CDS\u00c9 "

    def run(ctx):
        it.contracts[IT.DataIterator] = lambda interp, a, k: ("iterator", k)
        cr = object.__new__(C._GTFDBCreator)
        spec = {"gene": "gene_id", "transcript": ["transcript_id", "Name"], "exon": "gn"}
        ctx.stash["spec"] = spec
        ctx.stash["spec_copy"] = {k: (list(v) if isinstance(v, list) else v) for k, v in spec.items()}
        it.call(C._GTFDBCreator.__init__, [cr, "<data>", ghostdb.GhostConn()], {"transcript_key": tk, "gene_key": gk, "subfeature": sf, "id_spec": spec})
        return cr

    def replay(m):
        text = ('c\ts\tCDS\t5\t20\t.\t+\t0\tlocus "G1"; isoform "T1";\nc\ts\tCDS\t30\t40\t.\t+\t0\tlocus "G1"; isoform "T1";\n'
                'c\ts\texon\t1\t50\t.\t+\t.\tlocus "G1"; isoform "T1";\n')
        import warnings
        with warnings.catch_warnings():
            warnings.simplefilter("ignore")
            db = gffutils.create_db(text, ":memory:", from_string=True, gtf_transcript_key="isoform", gtf_gene_key="locus", gtf_subfeature="CDS",
                                    id_spec={"gene": "locus", "transcript": "isoform"})
        got = sorted((f.id, f.featuretype, f.start, f.end) for f in db.all_features() if f.featuretype in ("gene", "transcript"))
        exp = [("G1", "gene", 5, 40), ("T1", "transcript", 5, 40)]
        if got == exp:
            # explicit gene / transcript lines keyed by the standard attributes while the RELATIONS use other keys
            text2 = ('c\ts\tgene\t1\t90\t.\t+\t.\tgene_id "G1"; gene_name "ABC";\nc\ts\ttranscript\t1\t90\t.\t+\t.\tgene_id "G1"; gene_name "ABC"; transcript_id "T1"; transcript_name "ABC-201";\n'
                     'c\ts\texon\t5\t20\t.\t+\t.\tgene_id "G1"; gene_name "ABC"; transcript_id "T1"; transcript_name "ABC-201";\n')
            with warnings.catch_warnings():
                warnings.simplefilter("ignore")
                db2 = gffutils.create_db(text2, ":memory:", from_string=True, gtf_gene_key="gene_name", gtf_transcript_key="transcript_name",
                                         id_spec={"gene": "gene_id", "transcript": "transcript_id"}, disable_infer_genes=True, disable_infer_transcripts=True)
            got2 = sorted(f.id for f in db2.all_features() if f.featuretype in ("gene", "transcript"))
            if got2 != ["G1", "T1"]:
                return {"inputs": {"text": text2, "gtf_gene_key": "gene_name", "gtf_transcript_key": "transcript_name", "id_spec": {"gene": "gene_id", "transcript": "transcript_id"}},
                        "expected": ["G1", "T1"], "observed": got2, "violates": True}
        return {"inputs": {"text": text, "gtf_subfeature": "CDS", "gtf_gene_key": "locus", "gtf_transcript_key": "isoform"}, "expected": exp, "observed": got, "violates": got != exp}
    for p in U.explore(run, it):
        ok = p.kind == "return"
        if ok:
            cr = p.value
            ok = (getattr(cr, "transcript_key", None) is tk and getattr(cr, "gene_key", None) is gk and getattr(cr, "subfeature", None) is sf
                  and cr.id_spec == p.ctx.stash["spec_copy"] and p.ctx.stash["spec"] == p.ctx.stash["spec_copy"])
        U.prove("%s.gtf.init.keys[%s]#p%d" % (prefix, variant, p.index), "transcript_key, gene_key and subfeature are stored as given (no case folding, stripping or defaulting); the id_spec is the one given, entry by entry - the keys that define the RELATIONS do not change which attribute is the primary key", [], z3.BoolVal(bool(ok)), {}, replay=replay)


def unit_bounded_odd_ids(U):
    """Bounded: the derived gene / transcript is retrievable by EXACTLY the id its exons carry, whatever that id looks like:
    leading / trailing blanks, a no-break space, a tab-free but odd string, a number, an id that is a prefix of another"""
    import warnings
    fails, cases = [], 0
    ids = [(" T1", " G1"), ("T1 ", "G1"), ("\u00a0T1", "G1"), ("T1", "T1x"), ("007", "1e3"), ("t;1", "g=1"), ("T1", " T1")]
    for tid, gid in ids:
        feats = [F.Feature(seqid="c", source="s", featuretype="exon", start=a, end=b, strand="+", attributes={"gene_id": [gid], "transcript_id": [tid]}, dialect=dict(constants.dialect, fmt="gtf")) for a, b in ((10, 20), (40, 50))]
        cases += 1
        try:
            with warnings.catch_warnings():
                warnings.simplefilter("ignore")
                db = gffutils.create_db(feats, ":memory:", dialect=dict(constants.dialect, fmt="gtf"))
            t, g = db[tid], db[gid]
            obs = [(t.featuretype, t.start, t.end), (g.featuretype, g.start, g.end), sorted(f.featuretype for f in db.children(gid, level=1)), len(list(db.children(tid, level=1))), len(list(db.children(gid, level=2)))]
            exp = [("transcript", 10, 50), ("gene", 10, 50), ["transcript"], 2, 2]
            if tid == gid:
                continue
            if obs != exp:
                fails.append({"case": {"transcript_id": tid, "gene_id": gid}, "expected": exp, "observed": obs})
        except Exception as e:
            fails.append({"case": {"transcript_id": tid, "gene_id": gid}, "expected": "derived features retrievable by these ids", "observed": repr(e), "stored ids": sorted(f.id for f in db.all_features()) if "db" in dir() else None})
    U.bounded_result("C03.bounded.odd_ids", "derived gene / transcript stored under exactly the id of their exons (blanks, NBSP, numbers, separators in the id)", "%d id pairs" % len(ids), cases, fails)

UNITS = [("bounded.odd_ids", unit_bounded_odd_ids), ("bounded.verbose", unit_bounded_verbose), ("gtf.init", unit_gtf_init), ("gtf.init.awkward", unit_gtf_init_awkward), ("block", unit_block), ("finish", unit_finish), ("finish_collision", unit_finish_collision), ("route", unit_route), ("driving_query", unit_driving_query)]
try:
    from standins import C03 as _S
    UNITS = UNITS + list(_S.UNITS)
except ImportError:
    pass


def replay_file(doc):
    return {"error": "re-run ./check C03 to regenerate and replay this obligation", "violates": None, "stored": doc.get("inputs")}
