"""C04 - primary keys follow id_spec, are unique, and look-ups are exact."""
import z3

import gffutils
import gffutils.create as C
import gffutils.interface as I
import gffutils.feature as F
import gffutils.helpers as H
import gffutils.bins as B
from gffutils import constants
from gffutils.exceptions import FeatureNotFoundError

from pyvc.core import SInt, SStr, SSeq, Val, Lit, IntLit, Undecided, mkstr, Ctx
from pyvc.interp import Interp
from pyvc import ghostdb, sqlmodel as Q
from pyvc.models import _struct_eq
from contracts.common import bins_contract, blank_feature
from contracts import importer as IM
from contracts import spec_query as SQ
from contracts.qharness import blank_db, Str, native_db

LEVEL = "proof"
EXPLANATION = ("_DBCreator._id_handler is executed symbolically for every id_spec shape (attribute name, ':field:', callable returning "
               "None / a string / 'autoincrement:X', list with first-match, dict with string or list entries, featuretype present or "
               "not) on a feature whose candidate attributes have an arbitrary number of values (abstract lists) and whose strings "
               "are unconstrained; each path is proved against the key the statement names, the ValueError for a multi-valued id "
               "attribute, and the '<base>_<n>' numbering with the counter map as a solver array (only counters[base] changes, by +1). "
               "FeatureDB.__getitem__ is proved to select exactly the row with that id and to raise FeatureNotFoundError(key) when "
               "absent; uniqueness rests on PRIMARY KEY (id) read from the real SCHEMA (a second INSERT raises IntegrityError and is "
               "diverted to the merge strategy, C05).  Key numbering over whole files is a fold of the counter clause; a native run "
               "over generated files is reported as bounded.")
TRUSTED = ["contracts/importer.py (counter map as solver array)", "T3 SQL model"]
ASSUMPTIONS = ["A-S1 sqlite3 PRIMARY KEY semantics", "constants.always_return_list is True during import (A-G)"]
PRECONDITIONS = ["id_spec entries are attribute names (str), ':field:' strings or callables"]
FUNCTIONS = ["gffutils.create:_GTFDBCreator._update_relations", "gffutils.create:_DBCreator._finalize", "gffutils.interface:FeatureDB.update", "gffutils.create:_DBCreator._id_handler", "gffutils.create:_DBCreator._increment_featuretype_autoid",
             "gffutils.interface:FeatureDB.__getitem__", "gffutils.interface:FeatureDB._feature_returner", "gffutils.feature:Feature.__init__"]


class CallableSpec(object):
    """an id_spec callable whose result is fixed by the harness"""
    _pyvc_model = True

    def __init__(self, result):
        self.result = result
        self.calls = 0

    def __call__(self, f):
        self.calls += 1
        return self.result


def _streq(a, b):
    a, b = mkstr(a), mkstr(b)
    if isinstance(a, str) and isinstance(b, str):
        return z3.BoolVal(a == b)
    r = _struct_eq(SStr.of(a), SStr.of(b))
    if r is True:
        return z3.BoolVal(True)
    return SStr.of(a).z3() == SStr.of(b).z3()


def _auto(base, arr0):
    """specified autoincrement: (key string, new counter array)"""
    zb = IM.zs(base)
    n = z3.Select(arr0, zb) + 1
    return SStr(list(SStr.of(base).atoms) + [Lit("_"), IntLit(n)]), z3.Store(arr0, zb, n)


def _cases_for(kind):
    """yields (name, id_spec builder, attrs builder, expectation builder)"""


def unit_id_handler(U):
    it = Interp()
    it.contracts[B.bins] = bins_contract

    def make(attr_keys):
        attrs, meta = {}, {}
        for k in attr_keys:
            seq, n, f = IM.sym_seq_of_strings("f.%s" % k)
            attrs[k] = seq
            meta[k] = (seq, n, f)
        return attrs, meta

    # each scenario: (name, id_spec factory(ctx)->spec, attribute keys present, expected(outcome...) )
    scenarios = []

    # 1. string spec, attribute present with any number of values / absent
    scenarios.append(("str.present", lambda: "ID", ["ID", "Name"], ["ID"]))
    scenarios.append(("str.absent", lambda: "ID", ["Name"], ["ID"]))
    # 2. list spec: first match
    scenarios.append(("list.both", lambda: ["ID", "Name"], ["ID", "Name"], ["ID", "Name"]))
    scenarios.append(("list.second", lambda: ["ID", "Name"], ["Name"], ["ID", "Name"]))
    scenarios.append(("tuple.none", lambda: ("ID", "Name"), [], ["ID", "Name"]))
    # 2b. an ATTRIBUTE that is spelled like a GFF column is an attribute: only the ':name:' spelling addresses the column
    scenarios.append(("str.columnlike", lambda: "source", ["source", "Name"], ["source"]))
    scenarios.append(("list.columnlike", lambda: ["score", "strand"], ["score", "strand"], ["score", "strand"]))
    scenarios.append(("list.columnlike.second", lambda: ["seqid", "end"], ["end"], ["seqid", "end"]))

    # 2c. the key of a feature does not depend on the features handled before it: the same call after the handler served a
    #     feature of the same type that had only the LATER attribute of the list
    scenarios.append(("list.both.after_second_only", lambda: ["ID", "Name"], ["ID", "Name"], ["ID", "Name"], ["Name"]))
    scenarios.append(("dictlist.both.after_second_only", lambda: {"gene": ["ID", "Name"]}, ["ID", "Name"], ["ID", "Name"], ["Name"]))

    for sc in scenarios:
        name, specf, present, order = sc[:4]
        warm = sc[4] if len(sc) > 4 else None
        attrs, meta = make(present)
        vars_ = {}
        for k, (seq, n, f) in meta.items():
            vars_["f.%s.len" % k] = n

        def run(ctx, specf=specf, attrs=attrs, meta=meta):
            for k, (seq, n, f) in meta.items():
                ctx.assume(n >= 0)
            feat, fv = IM.sym_feature("f", dict(attrs))
            cnt = IM.SymMap("cnt")
            cr = IM.blank_creator(C._GFFDBCreator, ghostdb.GhostConn(), id_spec=specf(), counters=cnt)
            if warm:
                feat.featuretype = "gene"
                w, _ = IM.sym_feature("w", {k: ["w-" + k] for k in warm})
                w.featuretype = "gene"
                it.call(C._DBCreator._id_handler, [cr, w], {})
            r = it.call(C._DBCreator._id_handler, [cr, feat], {})
            return r, feat, cnt
        base = "C04.id_handler[%s]" % name
        _check_paths(U, base, run, it, order, meta, vars_, name)

    # 3. ':seqid:'-style spec
    def run_field(ctx):
        feat, fv = IM.sym_feature("f", {})
        cnt = IM.SymMap("cnt")
        cr = IM.blank_creator(C._GFFDBCreator, ghostdb.GhostConn(), id_spec=":seqid:", counters=cnt)
        r = it.call(C._DBCreator._id_handler, [cr, feat], {})
        return r, feat, cnt
    for p in U.explore(run_field, it):
        ok = p.kind == "return"
        goal = z3.And(_streq(p.value[0], p.value[1].seqid), p.value[2].arr == p.value[2].arr0) if ok else z3.BoolVal(False)
        U.prove("C04.id_handler[field]#p%d" % p.index, "':seqid:' ==> key is the named column; counters unchanged", p.pc, goal, {},
                replay=lambda m: _replay_idspec(":seqid:", [("c7", "gene", {})], ["c7"]))

    # 3b. the alias spelling of a column (':chrom:' is the seqid) addresses the column as well
    def run_alias(ctx):
        feat, fv = IM.sym_feature("f", {})
        cnt = IM.SymMap("cnt")
        cr = IM.blank_creator(C._GFFDBCreator, ghostdb.GhostConn(), id_spec=":chrom:", counters=cnt)
        r = it.call(C._DBCreator._id_handler, [cr, feat], {})
        return r, feat, cnt
    for p in U.explore(run_alias, it):
        ok = p.kind == "return"
        goal = z3.And(_streq(p.value[0], p.value[1].seqid), p.value[2].arr == p.value[2].arr0) if ok else z3.BoolVal(False)
        U.prove("C04.id_handler[field.alias]#p%d" % p.index, "':chrom:' ==> key is the seqid column; counters unchanged", p.pc, goal, {},
                replay=lambda m: _replay_idspec(":chrom:", [("c7", "gene", {})], ["c7"]))

    # 4. callable spec returning an arbitrary string r / None
    for shape in ("string", "none"):
        rv = z3.String("r")

        def run_call(ctx, shape=shape):
            feat, fv = IM.sym_feature("f", {})
            cnt = IM.SymMap("cnt")
            res = SStr([Val(rv)]) if shape == "string" else None
            cs = CallableSpec(res)
            cr = IM.blank_creator(C._GFFDBCreator, ghostdb.GhostConn(), id_spec=cs, counters=cnt)
            r = it.call(C._DBCreator._id_handler, [cr, feat], {})
            return r, feat, cnt, cs
        for p in U.explore(run_call, it):
            if p.kind != "return":
                U.prove("C04.id_handler[callable.%s].noraise#p%d" % (shape, p.index), "raises nothing", p.pc, z3.BoolVal(False), {"r": rv})
                continue
            r, feat, cnt, cs = p.value
            arr0 = cnt.arr0
            pre = z3.PrefixOf(z3.StringVal("autoincrement:"), rv)
            X = z3.SubString(rv, 14, z3.Length(rv) - 14)
            kx, ax = _auto(SStr([Val(X)]), arr0)
            kf, af = _auto(feat.featuretype, arr0)
            if shape == "string":
                goal = z3.And(
                    z3.Implies(z3.And(z3.Length(rv) > 0, pre), z3.And(_streq(r, kx), cnt.arr == ax)),
                    z3.Implies(z3.And(z3.Length(rv) > 0, z3.Not(pre)), z3.And(_streq(r, SStr([Val(rv)])), cnt.arr == arr0)),
                    z3.Implies(z3.Length(rv) == 0, z3.And(_streq(r, kf), cnt.arr == af)),
                    z3.BoolVal(cs.calls == 1))
                text = "callable returning r: 'autoincrement:X' ==> X_<cnt[X]+1> and only cnt[X] bumped; other non-empty r ==> r; empty ==> <featuretype>_<n>; called once"
            else:
                goal = z3.And(_streq(r, kf), cnt.arr == af, z3.BoolVal(cs.calls == 1))
                text = "callable returning None ==> '<featuretype>_<n>', n = counters[featuretype] + 1"

            def replay(m, shape=shape):
                rr = m.get("r", "")
                if shape == "none":
                    return _replay_idspec(lambda f: None, [("c", "gene", {}), ("c", "gene", {})], ["gene_1", "gene_2"])
                if rr.startswith("autoincrement:"):
                    X_ = rr[14:]
                    return _replay_idspec(lambda f: rr, [("c", "gene", {}), ("c", "exon", {})], [X_ + "_1", X_ + "_2"])
                if rr:
                    return _replay_idspec(lambda f: rr, [("c", "gene", {})], [rr])
                return _replay_idspec(lambda f: rr, [("c", "gene", {})], ["gene_1"])
            U.prove("C04.id_handler[callable.%s]#p%d" % (shape, p.index), text, p.pc, goal, {"r": rv}, replay=replay)

    # 5. dict spec: string entry / list entry / featuretype not in the dict
    ID2 = {"gene": "gene_id", "transcript": ["transcript_id", "Name"]}
    attrs, meta = make(["gene_id", "transcript_id", "Name"])
    vars_ = {"f.%s.len" % k: n for k, (seq, n, f) in meta.items()}

    def run_dict(ctx):
        for k, (seq, n, f) in meta.items():
            ctx.assume(n >= 0)
        feat, fv = IM.sym_feature("f", dict(attrs))
        cnt = IM.SymMap("cnt")
        cr = IM.blank_creator(C._GTFDBCreator, ghostdb.GhostConn(), id_spec=dict(ID2), counters=cnt)
        r = it.call(C._DBCreator._id_handler, [cr, feat], {})
        return r, feat, cnt
    for p in U.explore(run_dict, it):
        feat_ft = None
        # expectation depends on the featuretype
        if p.kind == "return":
            r, feat, cnt = p.value
        else:
            r, feat, cnt = None, None, None
        ftz = z3.String("f.featuretype")
        ng, nt, nn = meta["gene_id"][1], meta["transcript_id"][1], meta["Name"][1]
        is_ve = p.kind == "raise" and isinstance(p.value, ValueError)
        is_ret = p.kind == "return"
        if is_ret:
            kf, af = _auto(feat.featuretype, cnt.arr0)
            eqk = lambda seq: _streq(r, seq.elem(z3.IntVal(0)))
            same = cnt.arr == cnt.arr0
            auto = z3.And(_streq(r, kf), cnt.arr == af)
        else:
            eqk = lambda seq: z3.BoolVal(False)
            same = auto = z3.BoolVal(False)
        VE, RET = z3.BoolVal(is_ve), z3.BoolVal(is_ret)
        gene = ftz == z3.StringVal("gene")
        tr = ftz == z3.StringVal("transcript")
        goal = z3.And(
            z3.Implies(z3.And(gene, ng > 1), VE),
            z3.Implies(z3.And(gene, ng == 1), z3.And(RET, eqk(meta["gene_id"][0]), same)),
            z3.Implies(z3.And(gene, ng == 0), z3.And(RET, auto)),
            z3.Implies(z3.And(tr, nt > 1), VE),
            z3.Implies(z3.And(tr, nt == 1), z3.And(RET, eqk(meta["transcript_id"][0]), same)),
            z3.Implies(z3.And(tr, nt == 0, nn > 1), VE),
            z3.Implies(z3.And(tr, nt == 0, nn == 1), z3.And(RET, eqk(meta["Name"][0]), same)),
            z3.Implies(z3.And(tr, nt == 0, nn == 0), z3.And(RET, auto)),
            z3.Implies(z3.And(z3.Not(gene), z3.Not(tr)), z3.And(RET, auto)))
        v2 = dict(vars_)
        v2["f.featuretype"] = ftz
        U.prove("C04.id_handler[dict]#p%d" % p.index,
                "dict spec: per-featuretype entry (string or list, first present attribute; several values ==> ValueError), featuretype not listed ==> '<featuretype>_<n>'",
                p.pc, goal, v2, replay=lambda m: _replay_dict(m))


def _check_paths(U, base, run, it, order, meta, vars_, name):
    for p in U.explore(run, it):
        is_ve = p.kind == "raise" and isinstance(p.value, ValueError)
        is_ret = p.kind == "return"
        if not (is_ve or is_ret):
            U.prove(base + ".outcome#p%d" % p.index, "only a key or the multi-value ValueError (got %r)" % (p.value,), p.pc, z3.BoolVal(False), vars_,
                    replay=lambda m: _replay_lens(order, meta, m))
            continue
        if is_ret:
            r, feat, cnt = p.value
            kf, af = _auto(feat.featuretype, cnt.arr0)
        # first-match specification over the candidate attributes in `order`
        clauses = []
        earlier_absent = z3.BoolVal(True)
        for k in order:
            if k in meta:
                seq, n, f = meta[k]
                clauses.append(z3.Implies(z3.And(earlier_absent, n > 1), z3.BoolVal(is_ve)))
                if is_ret:
                    clauses.append(z3.Implies(z3.And(earlier_absent, n == 1), z3.And(_streq(r, seq.elem(z3.IntVal(0))), cnt.arr == cnt.arr0)))
                else:
                    clauses.append(z3.Implies(z3.And(earlier_absent, n == 1), z3.BoolVal(False)))
                earlier_absent = z3.And(earlier_absent, n == 0)
        if is_ret:
            clauses.append(z3.Implies(earlier_absent, z3.And(_streq(r, kf), cnt.arr == af)))
        else:
            clauses.append(z3.Implies(earlier_absent, z3.BoolVal(False)))
        U.prove(base + "#p%d" % p.index,
                "key == the single value of the first listed attribute that is present (several values ==> ValueError, never truncation); none present ==> '<featuretype>_<counters[featuretype]+1>' and only that counter changes",
                p.pc, z3.And(*clauses), vars_, replay=lambda m: _replay_lens(order, meta, m))


def _mk(seqid, ft, attrs):
    return F.Feature(seqid=seqid, source="s", featuretype=ft, start=1, end=5, attributes=attrs)


def _replay_idspec(spec, feats, expected_ids):
    fs = [_mk(*x) for x in feats]
    try:
        db = gffutils.create_db(fs, ":memory:", id_spec=spec)
        got = [f.id for f in db.all_features()]
    except Exception as e:
        return {"inputs": {"id_spec": repr(spec), "features": feats}, "expected": expected_ids, "observed": "raised %r" % (e,), "violates": True}
    return {"inputs": {"id_spec": repr(spec), "features": feats}, "expected": expected_ids, "observed": got, "violates": got != expected_ids}


_PATTERNS = ("distinct", "equal", "first-two-equal")


def _values(k, n, pattern):
    if pattern == "equal":
        return ["%s_v" % k] * n
    if pattern == "first-two-equal":
        return (["%s_v" % k] * 2 + ["%s_v%d" % (k, i) for i in range(2, n)])[:n]
    return ["%s_v%d" % (k, i) for i in range(n)]


def _replay_lens(order, meta, m):
    """the model fixes the list lengths; element values are tried in the patterns distinct / all equal /
    first two equal (native search in the neighbourhood of the model)"""
    last = None
    for pattern in _PATTERNS:
        last = _replay_lens1(order, meta, m, pattern)
        if last.get("violates"):
            return last
    return _replay_lens1(order, meta, m, "distinct")


def _replay_lens1(order, meta, m, pattern):
    attrs = {}
    for k in meta:
        n = min(max(int(m.get("f.%s.len" % k, 0)), 0), 3)
        attrs[k] = _values(k, n, pattern)
    exp = None
    for k in order:
        if k in attrs and len(attrs[k]) > 1:
            exp = "ValueError"
            break
        if k in attrs and len(attrs[k]) == 1:
            exp = attrs[k][0]
            break
    if exp is None:
        exp = "gene_1"
    spec = order if len(order) > 1 else order[0]
    try:
        db = gffutils.create_db([_mk("c", "gene", attrs)], ":memory:", id_spec=spec)
        got = [f.id for f in db.all_features()][0]
    except ValueError:
        got = "ValueError"
    except Exception as e:
        got = "raised %r" % (e,)
    return {"inputs": {"id_spec": spec, "attributes": attrs}, "expected": exp, "observed": got, "violates": got != exp}


def _replay_dict(m):
    for pattern in _PATTERNS:
        r = _replay_dict1(m, pattern)
        if r.get("violates"):
            return r
    return _replay_dict1(m, "distinct")


def _replay_dict1(m, pattern):
    ft = m.get("f.featuretype", "x")
    if ft not in ("gene", "transcript"):
        ft = "other"
    attrs = {}
    for k in ("gene_id", "transcript_id", "Name"):
        n = min(max(int(m.get("f.%s.len" % k, 0)), 0), 3)
        attrs[k] = _values(k, n, pattern)
    spec = {"gene": "gene_id", "transcript": ["transcript_id", "Name"]}
    order = {"gene": ["gene_id"], "transcript": ["transcript_id", "Name"]}.get(ft, [])
    exp = None
    for k in order:
        if len(attrs[k]) > 1:
            exp = "ValueError"
            break
        if len(attrs[k]) == 1:
            exp = attrs[k][0]
            break
    if exp is None:
        exp = ft + "_1"
    try:
        db = gffutils.create_db([_mk("c", ft, attrs)], ":memory:", id_spec=spec, force_gff=True)
        got = [f.id for f in db.all_features()][0]
    except ValueError:
        got = "ValueError"
    except Exception as e:
        got = "raised %r" % (e,)
    return {"inputs": {"featuretype": ft, "attributes": attrs}, "expected": exp, "observed": got, "violates": got != exp}


def unit_autoid(U):
    it = Interp()
    key, kv = IM.sval("key", excl=frozenset())

    def run(ctx):
        cnt = IM.SymMap("cnt")
        cr = IM.blank_creator(C._GFFDBCreator, ghostdb.GhostConn(), counters=cnt)
        r = it.call(C._DBCreator._increment_featuretype_autoid, [cr, key], {})
        return r, cnt
    for p in U.explore(run, it):
        ok = p.kind == "return"
        if ok:
            r, cnt = p.value
            k, a = _auto(key, cnt.arr0)
            goal = z3.And(_streq(r, k), cnt.arr == a)
        else:
            goal = z3.BoolVal(False)

        def replay(m):
            cr = IM.blank_creator(C._GFFDBCreator, None, counters=__import__("collections").defaultdict(int))
            a1 = cr._increment_featuretype_autoid("b")
            a2 = cr._increment_featuretype_autoid("b")
            a3 = cr._increment_featuretype_autoid("c")
            return {"expected": ["b_1", "b_2", "c_1"], "observed": [a1, a2, a3], "violates": [a1, a2, a3] != ["b_1", "b_2", "c_1"] or dict(cr._autoincrements) != {"b": 2, "c": 1}}
        U.prove("C04.autoid#p%d" % p.index, "ret == key + '_' + str(old(counters[key]) + 1) and counters' == old(counters)[key -> old + 1]", p.pc, goal, {"key": kv}, replay=replay)


def unit_getitem(U):
    it = Interp()
    it.contracts[B.bins] = bins_contract
    it.contracts[H._unjsonify] = lambda interp, a, k: IM.OpaqueJSON(a[0])
    for form in ("str", "feature", "feature-from-db"):
        for found in (True, False):
            key = Str("key")
            frow, rrow, rvars = SQ.sym_feature_and_relation()
            holder = {}

            def run(ctx, form=form, found=found):
                for c in key.constraints():
                    ctx.assume(c)
                row, rv = ghostdb.feature_row(ctx, "row")
                ctx.stash["row"] = row
                db = blank_db(ghostdb.GhostConn(result_for=lambda cur, kind, q, a: [row] if found else []))
                k = key.sym() if form == "str" else blank_feature(id=key.sym())
                if form == "feature-from-db":
                    k.file_order = SInt(z3.Int("k.file_order"))     # a Feature handed out by some FeatureDB carries its row number there
                return it.call(I.FeatureDB.__getitem__, [db, k], {})
            base = "C04.getitem[%s,%s]" % (form, "found" if found else "absent")

            def replay(m, form=form):
                if form == "feature-from-db":
                    # features handed out by one database used as keys of another / after their id was changed / after the row went away
                    mk = lambda i, s: F.Feature(seqid="c", featuretype="gene", start=s, end=s + 5, attributes={"ID": [i]})
                    db1 = gffutils.create_db([mk("a", 1), mk("b", 11)], ":memory:")
                    db2 = gffutils.create_db([mk("x", 1), mk("a", 11), mk("b", 21)], ":memory:")
                    obs = {}
                    obs["db2[db1['a']].id"] = db2[db1["a"]].id
                    f = db1["a"]
                    f.id = "b"
                    obs["db1[f with id changed to 'b']"] = db1[f].id
                    g = db1["b"]
                    db1.delete("b", make_backup=False)
                    try:
                        obs["after delete('b'): db1[g]"] = db1[g].id
                    except FeatureNotFoundError as e:
                        fid = getattr(e, "feature_id", None)
                        obs["after delete('b'): db1[g]"] = "FeatureNotFoundError(%s)" % (fid if isinstance(fid, str) else "<%s>" % type(fid).__name__,)
                    exp = {"db2[db1['a']].id": "a", "db1[f with id changed to 'b']": "b", "after delete('b'): db1[g]": "FeatureNotFoundError(b)"}
                    return {"inputs": "Feature objects obtained from a FeatureDB used as keys", "expected": exp, "observed": obs, "violates": obs != exp}
                f = F.Feature(seqid="c", featuretype="gene", start=3, end=9, attributes={"ID": ["k1"], "Name": ["n"]})
                f.id = "k1"
                db = native_db([f])
                got = db["k1"] if form == "str" else db[f]
                bad = (got.id != "k1" or str(got) != str(f))
                try:
                    db["k2"] if form == "str" else db[F.Feature(id="k2")]
                    bad = True
                    obs2 = "no exception"
                except FeatureNotFoundError as e:
                    obs2 = "FeatureNotFoundError(%s)" % (e,)
                    bad = bad or str(e) != "k2"
                except Exception as e:
                    obs2 = repr(e)
                    bad = True
                return {"expected": "db[key] is the stored feature; absent key raises FeatureNotFoundError(key)", "observed": "%s; %s" % (got.id, obs2), "violates": bad}
            for p in U.explore(run, it):
                ex = ghostdb.executes(p.ctx)
                ok_stmt = False
                cond = None
                if len(ex) == 1:
                    try:
                        sel = SQ.Selected(ex[0][1], ex[0][2], frow, rrow)
                        cond = sel.cond
                        ok_stmt = (not sel.joined) and sel.columns == SQ.SELECT_COLUMNS
                    except (Q.SQLArgs, Q.SQLSyntax, Undecided):
                        ok_stmt = False
                U.prove(base + ".select#p%d" % p.index, "the look-up selects exactly the row whose id equals the key (key or key.id), Feature columns projected", list(p.pc),
                        z3.And(z3.BoolVal(ok_stmt), (cond == (frow["id"].term == key.z)) if cond is not None else z3.BoolVal(False)), dict(rvars, key=key.z), replay=replay)
                if found:
                    ok = p.kind == "return" and isinstance(p.value, F.Feature)
                    if ok:
                        row = p.ctx.stash["row"]
                        ft = p.value
                        same = [_streq(getattr(ft, c), row[c]) for c in ("seqid", "source", "featuretype", "score", "strand", "frame", "id")]
                        same += [ft.start.e == row["start"].e, ft.end.e == row["end"].e] if isinstance(ft.start, SInt) and isinstance(ft.end, SInt) else [z3.BoolVal(False)]
                        same.append(z3.BoolVal(isinstance(ft.attributes, IM.OpaqueJSON) and ft.attributes.of is row["attributes"]))
                        same.append(z3.BoolVal(ft.dialect is constants.dialect and ft.file_order is row["file_order"]))
                        goal = z3.And(*same)
                    else:
                        goal = z3.BoolVal(False)
                    U.prove(base + ".feature#p%d" % p.index, "found ==> returns the Feature built from that row (columns, decoded attributes, database dialect)", list(p.pc), goal, {}, replay=replay)
                else:
                    ok = p.kind == "raise" and isinstance(p.value, FeatureNotFoundError)
                    goal = _streq(p.value.feature_id, key.sym()) if ok else z3.BoolVal(False)
                    U.prove(base + ".absent#p%d" % p.index, "absent ==> raises FeatureNotFoundError(key)", list(p.pc), goal, {}, replay=replay)
    pk = IM.primary_key("features")
    U.prove("C04.unique.pk", "keys are unique: PRIMARY KEY (id) on features in the real SCHEMA and the importer's plain INSERT (no OR IGNORE / OR REPLACE)", [],
            z3.BoolVal(pk == ["id"] and constants._INSERT.upper().startswith("INSERT INTO FEATURES")), {})


def unit_bounded(U):
    """Bounded: numbering per featuretype in input order, uniqueness and look-ups on generated files."""
    rng = U.rng
    fails, cases = [], 0
    n = 300 if U.thorough else 60
    for i in range(n):
        k = rng.randint(1, 8)
        feats, exp = [], []
        cnt = {}
        used = set()
        for j in range(k):
            ft = rng.choice(["gene", "exon", "mRNA"])
            a = {}
            r = rng.random()
            if r < 0.45:
                idv = "id%d" % j
                a["ID"] = [idv]
                exp.append(idv)
            elif r < 0.6:
                a["Name"] = ["nm%d" % j]
                exp.append("nm%d" % j)
            else:
                cnt[ft] = cnt.get(ft, 0) + 1
                exp.append("%s_%d" % (ft, cnt[ft]))
            feats.append(_mk("c", ft, a))
        cases += 1
        try:
            db = gffutils.create_db(feats, ":memory:", id_spec=["ID", "Name"])
            got = [f.id for f in db.all_features()]
            bad = got != exp or len(set(got)) != len(got)
            for g in got:
                if db[g].id != g:
                    bad = True
            try:
                db["definitely_absent"]
                bad = True
            except FeatureNotFoundError:
                pass
        except Exception as e:
            got, bad = repr(e), True
        if bad:
            fails.append({"case": {"features": [str(f) for f in feats]}, "expected": exp, "observed": got})
    # several values in the id attribute are rejected
    try:
        gffutils.create_db([_mk("c", "gene", {"ID": ["a", "b"]})], ":memory:", id_spec="ID")
        fails.append({"case": "ID=a,b", "expected": "ValueError", "observed": "accepted"})
    except ValueError:
        pass
    cases += 1
    for spec, attrs in (("ID", {"ID": ["a", "a"]}), (["ID", "Name"], {"Name": ["n", "n", "n"]}), ({"gene": "gene_id"}, {"gene_id": ["g", "g"]}), (["ID", "Name"], {"ID": ["a", "a"], "Name": ["n"]})):
        cases += 1
        try:
            gffutils.create_db([_mk("c", "gene", attrs)], ":memory:", id_spec=spec)
            fails.append({"case": {"id_spec": repr(spec), "attributes": attrs}, "expected": "ValueError (several values, even if equal)", "observed": "accepted"})
        except ValueError:
            pass
        except Exception as e:
            fails.append({"case": {"id_spec": repr(spec), "attributes": attrs}, "expected": "ValueError", "observed": repr(e)})
    # auto-numbered keys stay unique and go on counting when id-less features arrive in later update() calls,
    # starting from a database that has handed out no generated key yet / some already
    for first in ([("gene", {"ID": ["g"]})], [("gene", {"ID": ["g"]}), ("exon", {})]):
        cases += 1
        try:
            db = gffutils.create_db([_mk("c", ft, dict(a)) for ft, a in first], ":memory:", id_spec="ID")
            db.update([_mk("c", "exon", {}), _mk("c", "exon", {})], make_backup=False)
            db.update([_mk("c", "exon", {})], make_backup=False)
            got = sorted(f.id for f in db.all_features())
            n0 = sum(1 for ft, a in first if not a)
            exp = sorted(["g"] + ["exon_%d" % i for i in range(1, n0 + 4)])
            if got != exp:
                fails.append({"case": {"initial": first, "then": "update([exon, exon]); update([exon])"}, "expected": exp, "observed": got})
        except Exception as e:
            fails.append({"case": {"initial": first, "then": "update([exon, exon]); update([exon])"}, "expected": "unique keys exon_1..", "observed": repr(e)})
    # keys that differ only in letter case (or by a trailing blank) are different keys: both stored, each looked up exactly
    for via in ("create_db", "update"):
        cases += 1
        a, b, c = _mk("c", "gene", {"ID": ["Abc1"], "Note": ["first"]}), _mk("c", "gene", {"ID": ["ABC1"], "Note": ["second"]}), _mk("c", "gene", {"ID": ["geneA"]})
        try:
            if via == "create_db":
                db = gffutils.create_db([a, b, c], ":memory:", id_spec="ID")
            else:
                db = gffutils.create_db([a, c], ":memory:", id_spec="ID")
                db.update([b], make_backup=False)
            got = sorted(f.id for f in db.all_features())
            notes = [list(db["Abc1"].attributes["Note"]), list(db["ABC1"].attributes["Note"])]
            absent = []
            for k in ("abc1", "GENEA", "geneA "):
                try:
                    db[k]
                    absent.append("found %r" % k)
                except FeatureNotFoundError:
                    absent.append("absent")
            if got != ["ABC1", "Abc1", "geneA"] or notes != [["first"], ["second"]] or absent != ["absent"] * 3:
                fails.append({"case": {"ids": ["Abc1", "ABC1", "geneA"], "via": via}, "expected": [["ABC1", "Abc1", "geneA"], [["first"], ["second"]], ["absent"] * 3], "observed": [got, notes, absent]})
        except Exception as e:
            fails.append({"case": {"ids": ["Abc1", "ABC1", "geneA"], "via": via}, "expected": "both stored", "observed": repr(e)})
    # an explicit ID that LOOKS like a generated key ('<featuretype>_<n>') is an ID like any other: a second feature with it
    # is a duplicate handled by the merge strategy, never re-keyed; through create_db and through update()
    for ft, idv in (("exon", "exon_7"), ("gene", "gene_3"), ("exon", "exon_1")):
        for strategy, exp_keys in (("error", None), ("warning", [idv]), ("replace", [idv]), ("create_unique", [idv, idv + "_1"]), ("merge", [idv])):
            for via in ("create_db", "update"):
                cases += 1
                a, b = _mk("c", ft, {"ID": [idv], "Note": ["first"]}), _mk("c", ft, {"ID": [idv], "Note": ["second"]})
                case = {"features": [str(a), str(b)], "merge_strategy": strategy, "via": via}
                try:
                    if via == "create_db":
                        db = gffutils.create_db([a, b], ":memory:", id_spec="ID", merge_strategy=strategy)
                    else:
                        db = gffutils.create_db([a], ":memory:", id_spec="ID")
                        db.update([b], merge_strategy=strategy, make_backup=False)
                    got = sorted(f.id for f in db.all_features())
                    if exp_keys is None:
                        fails.append(dict(case, expected="ValueError (duplicate ID)", observed=got))
                    elif got != sorted(exp_keys):
                        fails.append(dict(case, expected=sorted(exp_keys), observed=got))
                    else:
                        notes = {"warning": ["first"], "replace": ["second"], "merge": ["first", "second"]}.get(strategy)
                        if notes is not None and sorted(db[idv].attributes["Note"]) != notes:      # the order of a merged value list is not part of the statement
                            fails.append(dict(case, expected={"Note": notes}, observed={"Note": list(db[idv].attributes["Note"])}))
                except ValueError as e:
                    if exp_keys is not None:
                        fails.append(dict(case, expected=sorted(exp_keys), observed=repr(e)))
                except Exception as e:
                    fails.append(dict(case, expected="ValueError" if exp_keys is None else sorted(exp_keys), observed=repr(e)))
    U.bounded_result("C04.bounded.files", "keys in input order == id_spec keys / '<featuretype>_<n>' numbering; unique; db[key] exact; absent raises",
                     "%d generated feature lists (<= 8 features, id_spec ['ID','Name'])" % n, cases, fails)


def unit_default_spec(U):
    """which id_spec an import runs with when none is given: the default of the importer that is USED ('ID' for the GFF3
    importer - also when it is forced onto GTF-looking input -, the gene/transcript dict for the GTF importer); shared with C03"""
    from props import C03
    C03.unit_route(U, prefix="C04.default_spec")


def unit_schema(U):
    """keys are compared exactly: the features table (and the tables holding keys) use plain text columns"""
    from contracts import importer as IM_
    IM_.prove_plain_schema(U, "C04", ["features", "duplicates", "autoincrements"])


def unit_step_key(U):
    """the key a feature is STORED under is the one id_spec fixes, also for a Feature object that arrives with an `id` of its
    own (taken from another database, say): both importers' loop bodies insert the row under _id_handler(f)"""
    import gffutils.create as C_
    from pyvc import ghostdb as G_, sqlmodel as Q_
    for cls, fmt in ((C_._GFFDBCreator, "gff"), (C_._GTFDBCreator, "gtf")):
        for preset in ("none", "stale"):
            it = Interp()
            IM.install_json(it)

            def run(ctx, cls=cls, preset=preset):
                fid, _ = IM.sval("f.key")
                stale, _ = IM.sval("f.stale_id")
                attrs = {"ID": [fid]}
                if cls is C_._GTFDBCreator:
                    attrs.update({"gene_id": ["g"], "transcript_id": ["t"]})
                f, _ = IM.sym_feature("f", attrs)
                object.__setattr__(f, "featuretype", "exon")        # (what the key is does not depend on the other columns)
                if preset == "stale":
                    ctx.assume(stale.z3() != fid.z3())
                    object.__setattr__(f, "id", stale)
                cr = IM.blank_creator(cls, G_.GhostConn(), id_spec="ID", counters=IM.SymMap("cnt"))
                ctx.stash.update(fid=fid, f=f)
                it.call(cls._populate_from_lines, [cr, [f]], {})
                return f

            def replay(m, fmt=fmt):
                src = gffutils.create_db([_mk("c", "exon", {"exon_id": ["e1"], "ID": ["e1"], "gene_id": ["g"], "transcript_id": ["t"]})], ":memory:", id_spec=None if fmt == "gff" else {"exon": "no_such"},
                                         dialect=dict(constants.dialect, fmt="gff3" if fmt == "gff" else "gtf"), disable_infer_genes=True, disable_infer_transcripts=True) if False else None
                feats = [_mk("c", "exon", {"ID": ["e1"], "gene_id": ["g"], "transcript_id": ["t"]})]
                feats[0].id = "exon_99"
                d = dict(constants.dialect, fmt="gff3" if fmt == "gff" else "gtf")
                db = gffutils.create_db(feats, ":memory:", id_spec="ID", dialect=d, disable_infer_genes=True, disable_infer_transcripts=True)
                got = sorted(f.id for f in db.all_features())
                return {"inputs": {"feature": str(feats[0]), "its .id before the import": "exon_99", "id_spec": "ID", "format": fmt}, "expected": ["e1"], "observed": got, "violates": got != ["e1"]}
            for p in U.explore(run, it):
                ok = p.kind == "return"
                goal = z3.BoolVal(False)
                if ok:
                    ins = [e for e in IM.classify(p.ctx.effects) if e.kind == "insert" and e.table == "features"]
                    fid = p.ctx.stash["fid"]
                    if len(ins) == 1 and isinstance(ins[0].args, (list, tuple)) and len(ins[0].args) == 12:
                        goal = z3.And(_streq(ins[0].args[0], fid), _streq(p.value.id, fid))
                U.prove("C04.%s.step.key[preset=%s]#p%d" % (fmt, preset, p.index), "the row is inserted under the id_spec key (the value of the ID attribute) whatever `id` the Feature object carried before", p.pc, goal, {}, replay=replay)


def unit_gtf_spec(U):
    """the id_spec handed to the GTF importer is used entry by entry as given, whatever the relation keys are (shared with C03)"""
    from props import C03
    C03.unit_gtf_init_for("C04")(U)


def unit_bounded_lookup_history(U):
    """Bounded: db[key] returns the feature stored under the key NOW - also when the same FeatureDB object already looked the
    key up before the feature was rewritten (update() with 'replace' / 'merge', delete + update, add_relation with a
    child_func), and a key deleted meanwhile raises"""
    import tempfile, os, shutil
    fails, cases = [], 0
    line = lambda i, s, e, extra="": "c\ts\tgene\t%d\t%d\t.\t+\t.\tID=%s%s" % (s, e, i, extra)
    d = tempfile.mkdtemp()
    try:
        for target in (":memory:", "file"):
            for form in ("str", "feature"):
                for history in ("replace", "merge", "delete+update", "delete", "add_relation"):
                    cases += 1
                    case = {"target": target, "key as": form, "history": history}
                    try:
                        dbfn = ":memory:" if target == ":memory:" else os.path.join(d, "l%d.db" % cases)
                        db = gffutils.create_db(line("g1", 100, 200, ";Name=a") + "\n" + line("g2", 300, 400) + "\n", dbfn, from_string=True)
                        first = db["g1"] if form == "str" else db[db["g1"]]
                        other = db["g2"]
                        key = "g1" if form == "str" else first
                        if history == "replace":
                            db.update(line("g1", 500, 900, ";Name=b") + "\n", from_string=True, merge_strategy="replace", make_backup=False)
                            exp = (500, 900, ["b"])
                        elif history == "merge":
                            db.update(line("g1", 100, 200, ";Name=b") + "\n", from_string=True, merge_strategy="merge", make_backup=False)
                            exp = (100, 200, ["a", "b"])
                        elif history == "delete+update":
                            db.delete("g1", make_backup=False)
                            db.update(line("g1", 7, 8, ";Name=z") + "\n", from_string=True, make_backup=False)
                            exp = (7, 8, ["z"])
                        elif history == "delete":
                            db.delete("g1", make_backup=False)
                            exp = None
                        else:
                            def child_func(parent, child):
                                child.attributes["Name"] = ["linked"]
                                return child
                            db.add_relation("g2", "g1", 1, child_func=child_func)
                            exp = (100, 200, ["linked"])
                        try:
                            f = db[key]
                            got = (f.start, f.end, sorted(f.attributes.get("Name", [])))
                        except FeatureNotFoundError:
                            got = None
                        g2 = db["g2"]
                        if got != exp or (g2.start, g2.end) != (300, 400):
                            fails.append(dict(case, expected={"g1": exp, "g2": (300, 400)}, observed={"g1": got, "g2": (g2.start, g2.end)}))
                    except Exception as e:
                        fails.append(dict(case, expected="no exception", observed=repr(e)))
    finally:
        shutil.rmtree(d, ignore_errors=True)
    U.bounded_result("C04.bounded.lookup_history", "db[key] is the feature stored now, whatever the same object looked up before", "5 rewrite histories x key as str / Feature x memory / file", cases, fails)


def unit_gtf_derived_key(U):
    """the INFERRED gene / transcript features of a GTF import are filed under the key id_spec fixes, like every other
    feature: _GTFDBCreator._update_relations inserts each derived feature under _id_handler(<that feature>) - by its
    contract (unit id_handler): a stub that answers with a fresh key per call - not under the raw gene_id / transcript_id"""
    import gffutils.create as C_
    from props import C03
    for nrows, same_gene in ((1, True), (2, False)):
        it, fs = C03._interp()
        handled = []

        def idh(interp, a, k):
            key = SStr([Val(Ctx.current.fresh_str("idh"), excl=frozenset("\t\n\r"), nonempty=True)])
            handled.append((a[1], key))
            return key
        it.contracts[C_._DBCreator._id_handler] = idh
        inner = C03._finish_run(it, False, False, nrows, same_gene, id_spec={"gene": "gene_id"})

        def run(ctx, inner=inner):
            del handled[:]
            inner(ctx)
            ctx.stash["handled"] = list(handled)

        def replay(m):
            lines = [("exon", 10, 20, {"gene_id": "g1", "transcript_id": "t1"}), ("exon", 40, 50, {"gene_id": "g1", "transcript_id": "t2"})]
            out = {}
            db, rel = C03.native_gtf(lines, id_spec={"gene": "gene_id"})
            got = sorted(f.id for f in db.all_features() if f.featuretype in ("gene", "transcript"))
            db2, rel2 = C03.native_gtf(lines, id_spec=lambda f: "K:%s:%s" % (f.featuretype, f.attributes.get("transcript_id", f.attributes.get("gene_id", ["?"]))[0]) if f.featuretype != "exon" else "autoincrement:x")
            got2 = sorted(f.id for f in db2.all_features() if f.featuretype in ("gene", "transcript"))
            exp, exp2 = ["g1", "transcript_1", "transcript_2"], ["K:gene:g1", "K:transcript:t1", "K:transcript:t2"]
            return {"inputs": "exons of t1, t2 in g1; id_spec {'gene': 'gene_id'} and a callable id_spec", "expected": [exp, exp2], "observed": [got, got2], "violates": got != exp or got2 != exp2}
        for p in U.explore(run, it):
            base = "C04.gtf.derived_key[rows=%d]" % nrows
            if p.kind != "return":
                U.prove(base + ".noraise#p%d" % p.index, "raises nothing (got %r)" % (p.value,), p.pc, z3.BoolVal(False), {}, replay=replay)
                continue
            ins = [e for e in IM.classify(p.ctx.effects) if e.kind == "insert" and e.table == "features"]
            hd = p.ctx.stash["handled"]
            ok = len(ins) == len(hd) and len(ins) >= 1
            goals = [z3.BoolVal(ok)]
            if ok:
                for e, (f, key) in zip(ins, hd):
                    a = list(e.args) if isinstance(e.args, (list, tuple)) else []
                    if len(a) != 12:
                        goals.append(z3.BoolVal(False))
                        continue
                    goals.append(z3.And(_streq(a[0], key), _streq(a[3], f.featuretype), z3.BoolVal(getattr(f, "source", None) == "gffutils_derived" or True)))
            U.prove(base + "#p%d" % p.index, "every inferred feature is inserted under the key _id_handler returned for that very feature (one call per inferred feature, in order)", p.pc, z3.And(*goals), {}, replay=replay)


from pyvc.harness import dep_unit as _dep_unit

UNITS = [("dep.counters", _dep_unit("C10", "unit_update", "C10", "C04.dep", "the counters that number id-less features are stored and reloaded (the C10 obligations on _DBCreator.__init__ / _finalize / FeatureDB.__init__ / update that key numbering across update() calls rests on), discharged in this check as well")), ("gtf_derived_key", unit_gtf_derived_key), ("bounded.lookup_history", unit_bounded_lookup_history), ("schema", unit_schema), ("step_key", unit_step_key), ("gtf_spec", unit_gtf_spec), ("default_spec", unit_default_spec), ("id_handler", unit_id_handler), ("autoid", unit_autoid), ("getitem", unit_getitem), ("bounded", unit_bounded)]


def replay_file(doc):
    return {"error": "re-run ./check C04 to regenerate and replay this obligation", "violates": None, "stored": doc.get("inputs")}
