"""C06 - region and limit= queries return exactly the overlapping / contained features."""
import itertools
import z3

import gffutils
import gffutils.bins as B
import gffutils.helpers as H
import gffutils.interface as I
import gffutils.feature as F

from pyvc.core import SInt, SStr, Val, Lit, IntLit, Undecided, Ctx
from pyvc.interp import Interp
from pyvc import ghostdb, sqlmodel as Q
from pyvc.harness import model_of, ev
from contracts.common import bins_contract, blank_feature
from contracts import spec_query as SQ
from contracts import spec_bins as SB
from contracts.qharness import (Const, Str, Int, DecStr, Tup, LimitStr, all_vars, sym_kwargs, nat_kwargs, constraints,
                                blank_db, Renamer, native_db, feature_from_model)

LEVEL = "proof"
EXPLANATION = ("For every argument shape of all_features / features_of_type / children / parents with limit= (tuple and "
               "'seqid:start-end' forms) and of region() (tuple / string / Feature / keyword forms; both, one or no bound; "
               "completely_within on/off; strand; featuretype none / string / list) the real code is executed symbolically up to "
               "cursor.execute; the SQL text with holes is parsed and its WHERE/ON clauses translated to a three-valued row "
               "predicate, which is proved equal to the statement's set comprehension for an arbitrary stored row (bin = "
               "bins(start,end), C12) and arbitrary integer bounds start <= end - including the redundancy of the bin pre-filter "
               "(bins by contract).  Placeholders and arguments are checked to be in lock-step.")
TRUSTED = ["T3 SQL model pyvc/sqlmodel.py (grammar + three-valued translation), cross-validated against real sqlite3 on every run",
           "contracts/spec_query.py, contracts/spec_bins.py (specifications from the statements)"]
ASSUMPTIONS = ["A-S1 sqlite3 executes the modelled SQL subset as modelled (three-valued logic, integer affinity of decimal text, PRIMARY KEY)",
               "A-S6 coordinates below 2**63", "bins.bins satisfies its contract (proved in C12)"]
PRECONDITIONS = ["query bounds are ints (or canonical decimal text) with start <= end", "seqid without ':' in the 'seqid:start-end' string form; bounds >= 0 there",
                 "stored rows: bin == bins(start, end) when both coordinates are present (proved: C12.astuple.bin)",
                 "featuretype: non-empty string or non-empty list/tuple of strings; strand: non-empty string"]
FUNCTIONS = ["gffutils.create:_DBCreator._insert", "gffutils.create:_DBCreator._replace", "gffutils.interface:FeatureDB._insert", "gffutils.interface:FeatureDB._update", "gffutils.helpers:make_query", "gffutils.interface:FeatureDB.region", "gffutils.interface:FeatureDB.all_features",
             "gffutils.interface:FeatureDB.features_of_type", "gffutils.interface:FeatureDB.children", "gffutils.interface:FeatureDB.parents",
             "gffutils.interface:FeatureDB._relation", "gffutils.interface:FeatureDB._execute"]


def _interp():
    it = Interp()
    it.contracts[B.bins] = bins_contract
    return it


# ------------------------------------------------------------------------------------------
# shapes
# ------------------------------------------------------------------------------------------
def limit_shapes():
    seqid, S, E = Str("q_seqid"), Int("S"), Int("E")
    yield "tuple", Tup(seqid, S, E), [S.z <= E.z]
    yield "list", Tup(seqid, S, E, kind=list), [S.z <= E.z]
    yield "string", LimitStr(Str("q_seqid"), S, E), [S.z <= E.z, S.z >= 0]
    yield "tuple-decimal-text", Tup(seqid, DecStr("S"), DecStr("E")), [S.z <= E.z]


def ft_shapes():
    yield "none", None
    yield "str", Str("ft")
    yield "list2", Tup(Str("ft"), Str("ft2"), kind=list)
    yield "tuple1", Tup(Str("ft"))


def strand_shapes():
    yield "none", None
    yield "str", Str("q_strand")


def _spec_ft(ft):
    if ft is None:
        return None
    if isinstance(ft, Str):
        return ft.z
    return [i.z for i in ft.items]


def make_query_cases(thorough):
    """(name, method, kwargs(descriptors), pre, spec-builder)"""
    for entry in ("all_features", "features_of_type", "children", "parents"):
        for (ln, lim, lpre), cw, (sn, strand), (fn, ft) in itertools.product(limit_shapes(), (False, True), strand_shapes(), ft_shapes()):
            if not thorough and ln in ("list", "tuple-decimal-text") and (entry != "all_features" or sn != "none" or fn not in ("none", "str")):
                continue
            if entry in ("children", "parents") and sn != "none":
                continue        # no strand parameter
            if entry == "features_of_type" and ft is None:
                continue
            for lv in ((None, Int("L")) if entry in ("children", "parents") else (None,)):
                if not thorough and lv is not None and (fn == "list2" or ln != "tuple"):
                    continue
                kw = {"limit": lim, "completely_within": cw}
                if entry in ("all_features", "features_of_type"):
                    kw["strand"] = strand
                if ft is not None or entry != "features_of_type":
                    kw["featuretype"] = ft
                if entry in ("children", "parents"):
                    kw["level"] = lv
                    kw["id"] = Str("x")
                name = "%s[limit=%s,cw=%s,strand=%s,ft=%s%s]" % (entry, ln, cw, sn, fn, ",level" if lv is not None else "")
                yield name, entry, kw, lpre


def _spec(entry, kw, frow, rrow):
    lim = kw["limit"]
    if isinstance(lim, LimitStr):
        seqid, S, E = lim.seqid.z, lim.S.z, lim.E.z
    else:
        seqid, S, E = lim.items[0].z, lim.items[1].z, lim.items[2].z
    geo = (SQ.within if kw["completely_within"] else SQ.overlap)(frow, seqid, S, E)
    c = [geo, SQ.type_ok(frow, _spec_ft(kw.get("featuretype")))]
    st = kw.get("strand")
    c.append(SQ.strand_ok(frow, st.z if st is not None else None))
    if entry in ("children", "parents"):
        lv = kw.get("level")
        c.append(SQ.relation_ok(frow, rrow, kw["id"].z, lv.z if lv is not None else None, entry))
    return z3.And(*c)


def _native_selected(entry, kw, m):
    """Replay: build a real database holding the model's row (and relation), call the real
    method with the model's arguments, report whether the row's feature is returned."""
    ren = Renamer()
    f = feature_from_model(m, ren)
    rel = []
    if entry in ("children", "parents"):
        rel = [(ren(m.get("r.parent", "p")), ren(m.get("r.child", "c")), m.get("r.level", 1))]
    db = native_db([f], rel)
    nkw = nat_kwargs(kw, m, ren)
    if entry in ("children", "parents"):
        x = nkw.pop("id")
        res = list(getattr(db, entry)(x, **nkw))
    elif entry == "features_of_type":
        ft = nkw.pop("featuretype")
        res = list(db.features_of_type(ft, **nkw))
    elif entry == "region":
        res = list(db.region(**nkw))
    else:
        res = list(db.all_features(**nkw))
    return f, nkw, [r.id for r in res]


def _prove_select(U, oid_base, entry, kw, pre, p, frow, rrow, rvars, spec_fn):
    ctx = p.ctx
    if p.kind != "return":
        U.prove(oid_base + ".noraise#p%d" % p.index, "raises nothing under the precondition (got %r)" % (p.value,), p.pc, z3.BoolVal(False), rvars,
                replay=lambda m: _replay_raise(entry, kw, m))
        return
    ex = ghostdb.executes(ctx)
    if len(ex) != 1:
        raise Undecided("%s: expected exactly one statement, got %d" % (oid_base, len(ex)))
    kind, query, args = ex[0]
    try:
        sel = SQ.Selected(query, args, frow, rrow)
    except (Q.SQLArgs, Q.SQLSyntax) as e:
        U.prove(oid_base + ".lockstep#p%d" % p.index, "placeholders and arguments in lock-step / valid SQL (%s)" % e, p.pc, z3.BoolVal(False), rvars,
                replay=lambda m: _replay_raise(entry, kw, m))
        return
    spec = spec_fn(frow, rrow)
    hyps = list(p.pc) + [SQ.wf_row(frow)]

    def replay(m):
        try:
            f, nkw, ids = _native_selected(entry, kw, m)
        except Exception as e:          # the real call raised
            return {"inputs": m, "observed": "raised %r" % (e,), "violates": True}
        exp = None
        try:
            sm = model_of(hyps + [_eqc(v, m[k]) for k, v in rvars.items() if k in m])
            exp = bool(ev(sm, spec)) if sm is not None else None
        except Exception:
            exp = None
        obs = f.id in ids
        return {"inputs": {"row": {k: v for k, v in m.items() if k.startswith(("f.", "r."))}, "call": "%s(**%r)" % (entry, nkw)},
                "call": "db.%s" % entry, "expected": "row returned: %s" % exp, "observed": "row returned: %s (ids=%r)" % (obs, ids),
                "violates": (exp is not None and obs != exp)}
    U.prove(oid_base + ".where#p%d" % p.index,
            "selected(row) <==> seqid-match and coordinates (overlap | within) and strand-match and type-match [and relation]  (for every stored row with bin == bins(start,end))",
            hyps, sel.cond == spec, rvars, replay=replay)
    if entry in ("children", "parents"):
        U.prove(oid_base + ".distinct#p%d" % p.index, "each feature returned once (SELECT DISTINCT over the join)", [], z3.BoolVal(sel.distinct), {})
    U.prove(oid_base + ".columns#p%d" % p.index, "projected columns are the Feature columns + rowid as file_order", [],
            z3.BoolVal(sel.columns == SQ.SELECT_COLUMNS), {})


def _eqc(v, c):
    if isinstance(c, bool):
        return v == z3.BoolVal(c)
    if isinstance(c, int):
        return v == z3.IntVal(c)
    if isinstance(c, str):
        return v == z3.StringVal(c)
    return z3.BoolVal(True)


def _mv(m, k, v):
    return v


def _replay_raise(entry, kw, m):
    try:
        f, nkw, ids = _native_selected(entry, kw, m)
        return {"inputs": m, "observed": "no exception", "violates": False}
    except Exception as e:
        return {"inputs": m, "observed": "raised %r" % (e,), "violates": True}


def unit_limit(U):
    cases = list(make_query_cases(U.thorough))
    U.notes.append("%d argument shapes for limit=" % len(cases))
    for name, entry, kw, pre in cases:
        it = _interp()
        frow, rrow, rvars = SQ.sym_feature_and_relation()
        vars_ = dict(rvars)
        vars_.update(all_vars(kw))
        cons = constraints(kw) + pre

        def run(ctx, entry=entry, kw=kw, cons=cons):
            for c in cons:
                ctx.assume(c)
            db = blank_db()
            skw = sym_kwargs(kw)
            if entry in ("children", "parents"):
                x = skw.pop("id")
                g = it.call(getattr(I.FeatureDB, entry), [db, x], skw)
            elif entry == "features_of_type":
                ft = skw.pop("featuretype")
                g = it.call(I.FeatureDB.features_of_type, [db, ft], skw)
            else:
                g = it.call(I.FeatureDB.all_features, [db], skw)
            list(g)
            return None
        paths = U.explore(run, it)
        base = "C06.limit.%s" % name
        for p in paths:
            _prove_select(U, base, entry, kw, pre, p, frow, rrow, vars_, lambda fr, rr, entry=entry, kw=kw: _spec(entry, kw, fr, rr))
        U.refuted(base + ".canary", [z3.Or(*[z3.And(*p.pc) for p in paths]), SQ.wf_row(frow), SQ.has_xy(frow)], z3.BoolVal(False), "paths + wf(row) satisfiable")


# ------------------------------------------------------------------------------------------
# region()
# ------------------------------------------------------------------------------------------
def region_cases(thorough):
    seqid, S, E = Str("q_seqid"), Int("S"), Int("E")
    for cw in (False, True):
        for (sn, strand), (fn, ft) in itertools.product(strand_shapes(), ft_shapes()):
            if fn == "tuple1" and not thorough:
                continue
            base = {"completely_within": cw, "strand": strand, "featuretype": ft}
            # tuple / list form
            yield "tuple", dict(base, region=Tup(seqid, S, E)), [S.z <= E.z, S.z >= 1], ("both", seqid, S, E)
            # keyword forms: both / start only / end only / seqid only / nothing
            yield "kw-both", dict(base, seqid=seqid, start=S, end=E), [S.z <= E.z, S.z >= 1], ("both", seqid, S, E)
            yield "kw-both-noseqid", dict(base, start=S, end=E), [S.z <= E.z, S.z >= 1], ("both", None, S, E)
            if sn == "none" or thorough:
                yield "kw-start", dict(base, seqid=seqid, start=S), [S.z >= 1], ("start", seqid, S, None)
                yield "kw-end", dict(base, seqid=seqid, end=E), [E.z >= 1], ("end", seqid, None, E)
                yield "kw-seqid", dict(base, seqid=seqid), [], ("none", seqid, None, None)
                yield "string", dict(base, region=LimitStr(Str("q_seqid"), S, E)), [S.z <= E.z, S.z >= 1], ("both", seqid, S, E)
                yield "string-seqid-only", dict(base, region=Str("q_seqid", excl=":")), [], ("none", seqid, None, None)
                yield "decimal-text", dict(base, seqid=seqid, start=DecStr("S"), end=DecStr("E")), [S.z <= E.z, S.z >= 1], ("both", seqid, S, E)


from contracts.qharness import A


class FeatureArg(A):
    """region=<Feature> form: a Feature whose seqid/start/end/strand are symbolic"""

    def __init__(self):
        self.seqid, self.S, self.E, self.strand = Str("q_seqid"), Int("S"), Int("E"), Str("qf_strand")

    def vars(self):
        d = {}
        for x in (self.seqid, self.S, self.E, self.strand):
            d.update(x.vars())
        return d

    def sym(self):
        return blank_feature(seqid=self.seqid.sym(), start=self.S.sym(), end=self.E.sym(), strand=self.strand.sym())

    def nat(self, m, ren):
        return F.Feature(seqid=ren(m["q_seqid"]), start=m["S"], end=m["E"], strand=ren(m["qf_strand"]))


def _region_spec(kw, shape, frow):
    which, seqid, S, E = shape
    cw = kw["completely_within"]
    st = kw.get("strand")
    ft = kw.get("featuretype")
    common = [SQ.type_ok(frow, _spec_ft(ft)), SQ.strand_ok(frow, st.z if st is not None else None)]
    sq = seqid.z if seqid is not None else None
    if which == "both":
        geo = (SQ.within if cw else SQ.overlap)(frow, sq, S.z, E.z)
        return ("eq", z3.And(geo, *common))
    if which == "none":
        return ("eq", z3.And(SQ.seq_ok(frow, sq), *common))
    # one bound: no feature outside the half-line is returned; every feature extending strictly beyond the bound is
    if which == "start":
        col = frow["start"] if cw else frow["end"]
        upper = z3.And(SQ.seq_ok(frow, sq), z3.Not(col.null), col.term >= S.z, *common)
        lower = z3.And(SQ.seq_ok(frow, sq), z3.Not(col.null), col.term > S.z, *common)
    else:
        col = frow["end"] if cw else frow["start"]
        upper = z3.And(SQ.seq_ok(frow, sq), z3.Not(col.null), col.term <= E.z, *common)
        lower = z3.And(SQ.seq_ok(frow, sq), z3.Not(col.null), col.term < E.z, *common)
    return ("between", lower, upper)


def unit_region(U):
    cases = list(region_cases(U.thorough))
    fa = FeatureArg()
    for cw in (False, True):
        for sn, strand in strand_shapes():
            cases.append(("feature", {"completely_within": cw, "strand": strand, "featuretype": None, "region": fa},
                          [fa.S.z <= fa.E.z, fa.S.z >= 1], ("both", fa.seqid, fa.S, fa.E)))
    U.notes.append("%d argument shapes for region()" % len(cases))
    for name, kw, pre, shape in cases:
        it = _interp()
        frow, rrow, rvars = SQ.sym_feature_and_relation()
        vars_ = dict(rvars)
        for v in kw.values():
            if hasattr(v, "vars"):
                vars_.update(v.vars())
        cons = constraints(kw) + pre
        if isinstance(kw.get("region"), FeatureArg):
            cons = cons + fa.seqid.constraints() + fa.strand.constraints()
        tag = "region[%s,cw=%s,strand=%s,ft=%s]" % (name, kw["completely_within"], "str" if kw["strand"] is not None else "none",
                                                    "none" if kw["featuretype"] is None else type(kw["featuretype"]).__name__ + str(len(getattr(kw["featuretype"], "items", "x"))))

        def run(ctx, kw=kw, cons=cons):
            for c in cons:
                ctx.assume(c)
            db = blank_db()
            list(it.call(I.FeatureDB.region, [db], sym_kwargs(kw)))
            return None
        paths = U.explore(run, it)
        base = "C06.%s" % tag
        for p in paths:
            if p.kind != "return":
                U.prove(base + ".noraise#p%d" % p.index, "raises nothing under the precondition (got %r)" % (p.value,), p.pc, z3.BoolVal(False), vars_,
                        replay=lambda m, kw=kw: _replay_raise("region", kw, m))
                continue
            ex = ghostdb.executes(p.ctx)
            if len(ex) != 1:
                raise Undecided("%s: expected exactly one statement" % base)
            try:
                sel = SQ.Selected(ex[0][1], ex[0][2], frow, rrow)
            except (Q.SQLArgs, Q.SQLSyntax) as e:
                U.prove(base + ".lockstep#p%d" % p.index, "placeholders and arguments in lock-step / valid SQL (%s)" % e, p.pc, z3.BoolVal(False), vars_,
                        replay=lambda m, kw=kw: _replay_raise("region", kw, m))
                continue
            spec = _region_spec(kw, shape, frow)
            hyps = list(p.pc) + [SQ.wf_row(frow)]

            def replay(m, kw=kw, spec=spec, hyps=hyps):
                try:
                    f, nkw, ids = _native_selected("region", kw, m)
                except Exception as e:
                    return {"inputs": m, "observed": "raised %r" % (e,), "violates": True}
                sm = model_of(hyps + [_eqc(v, m[k]) for k, v in vars_.items() if k in m])
                obs = f.id in ids
                if sm is None:
                    return {"inputs": m, "observed": obs, "violates": None}
                if spec[0] == "eq":
                    exp = bool(ev(sm, spec[1]))
                    bad = obs != exp
                    exps = "row returned: %s" % exp
                else:
                    lo, up = bool(ev(sm, spec[1])), bool(ev(sm, spec[2]))
                    bad = (lo and not obs) or (obs and not up)
                    exps = "must be returned: %s; may be returned: %s" % (lo, up)
                return {"inputs": {"row": {k: v for k, v in m.items() if k.startswith("f.")}, "call": "region(**%r)" % (nkw,)},
                        "expected": exps, "observed": "row returned: %s" % obs, "violates": bad}
            if spec[0] == "eq":
                U.prove(base + ".where#p%d" % p.index, "selected(row) <==> seqid-match and (overlap | within) and strand-match (the `strand` argument) and type-match",
                        hyps, sel.cond == spec[1], vars_, replay=replay)
            else:
                U.prove(base + ".halfline.sub#p%d" % p.index, "one bound: no feature outside the half-line is returned", hyps, z3.Implies(sel.cond, spec[2]), vars_, replay=replay)
                U.prove(base + ".halfline.sup#p%d" % p.index, "one bound: every feature extending strictly beyond the bound is returned", hyps, z3.Implies(spec[1], sel.cond), vars_, replay=replay)
            U.prove(base + ".columns#p%d" % p.index, "projected columns are the Feature columns + rowid as file_order", [], z3.BoolVal(sel.columns == SQ.SELECT_COLUMNS), {})
        U.refuted(base + ".canary", [z3.Or(*[z3.And(*p.pc) for p in paths]), SQ.wf_row(frow), SQ.has_xy(frow)], z3.BoolVal(False), "paths + wf(row) satisfiable")

    # region together with seqid/start/end raises ValueError
    it = _interp()

    def run2(ctx):
        db = blank_db()
        list(it.call(I.FeatureDB.region, [db], {"region": ("chr1", 1, 10), "start": SInt(z3.Int("S"))}))
    for p in U.explore(run2, it):
        U.prove("C06.region.args#p%d" % p.index, "region together with seqid/start/end ==> raises ValueError", p.pc,
                z3.BoolVal(p.kind == "raise" and isinstance(p.value, ValueError)), {})


def unit_sqlmodel_validation(U):
    """Differential validation of the assumed SQL contract (T3 / A-S1): the templates met in this
    property are evaluated by the model and by the real sqlite3 on random small tables."""
    from contracts.sqlvalidate import validate_templates
    n = 1500 if U.thorough else 150
    cases, fails, templates = validate_templates(U.rng, n)
    U.bounded_result("C06.assumption.sqlmodel", "model(WHERE)(row) == real sqlite3 selects row  [validation of assumption A-S1, not a proof obligation]",
                     "%d templates x %d random rows/arguments (values around bin boundaries, NULL coordinates)" % (templates, n), cases, fails,
                     sample={"templates": templates})


def unit_bounded(U):
    """Bounded stand-in: the statement's set comprehension evaluated natively against the real
    methods on random small databases with coordinates on bin boundaries / 2**29."""
    from contracts.sqlvalidate import bounded_query_standin
    n = 6000 if U.thorough else 600
    cases, fails, distinct = bounded_query_standin(U.rng, n)
    U.bounded_result("C06.bounded.queries", "result ids == {f | seqid, coordinates (overlap|within), strand, type, relation} (each once)",
                     "%d random calls of all_features/features_of_type/children/parents(limit=)/region on 7-feature databases with coordinates within +-2 of bin-size multiples and 2**29" % n,
                     cases, fails, distinct=distinct)


def unit_bounded_straddle(U):
    """Bounded, systematic: SHORT and long features lying across a bin boundary (stored through the real create_db, so with the
    bin the real code assigns), queried with intervals placed before / across / entirely beyond the boundary; limit= of
    all_features / features_of_type / children and region(), overlap and completely_within, against the statement."""
    import gffutils.feature as F_
    fails, cases = [], 0
    levels = (17, 20, 23, 26) if U.thorough else (17, 20, 26)
    for L in levels:
        B0 = 2 ** L
        feats = [F_.Feature(seqid="c", source="s", featuretype="gene", start=1, end=4 * B0 if L < 26 else B0 + 10 ** 6, strand="+", attributes={"ID": ["top"]})]
        k = 0
        for d1 in (0, 1, 2, 60):
            for d2 in (-1, 0, 1, 60, 2 ** 17 + 5):
                if B0 - d1 > B0 + d2:
                    continue
                k += 1
                feats.append(F_.Feature(seqid="c", source="s", featuretype="exon", start=B0 - d1, end=B0 + d2, strand="+", attributes={"ID": ["x%d" % k], "Parent": ["top"]}))
        db = gffutils.create_db(feats, ":memory:")
        qpts = [B0 - 70, B0 - 2, B0 - 1, B0, B0 + 1, B0 + 2, B0 + 59, B0 + 61, B0 + 2 ** 17 + 6]
        for qs in qpts:
            for qe in qpts:
                if qe < qs:
                    continue
                for cw in (False, True):
                    def want(pool):
                        return sorted(f.id for f in pool if ((qs <= f.start and f.end <= qe) if cw else (f.start <= qe and f.end >= qs)))
                    calls = [("all_features(limit)", lambda: db.all_features(limit=("c", qs, qe), completely_within=cw), feats),
                             ("features_of_type('exon', limit)", lambda: db.features_of_type("exon", limit=("c", qs, qe), completely_within=cw), feats[1:]),
                             ("children('top', limit)", lambda: db.children("top", limit=("c", qs, qe), completely_within=cw), feats[1:]),
                             ("region", lambda: db.region(("c", qs, qe), completely_within=cw), feats)]
                    for name, fn, pool in calls:
                        cases += 1
                        try:
                            got = sorted(f.id for f in fn())
                        except Exception as e:
                            got = "raised %r" % (e,)
                        exp = want(pool)
                        if got != exp:
                            missing = [i for i in exp if not isinstance(got, str) and i not in got]
                            fails.append({"case": {"call": name, "interval": [qs, qe], "completely_within": cw, "boundary": "2**%d" % L,
                                                   "features missing": [(f.id, f.start, f.end) for f in feats if f.id in missing][:4]}, "expected": exp, "observed": got})
    U.bounded_result("C06.bounded.straddle", "features across a bin boundary are found by every overlapping / containing query, wherever the query lies relative to the boundary",
                     "boundaries 2**17, 2**20, 2**26 (thorough + 2**23): 17 features starting 0..60 before and ending -1..2**17+5 after it x 45 query intervals x {overlap, within} x 4 entry points", cases, fails)


def unit_schema(U):
    """standing assumption of the SQL model, checked on the real SCHEMA: plain text/int columns, exact text comparison"""
    from contracts import importer as IM_
    IM_.prove_plain_schema(U, "C06", ['features', 'relations'])


def unit_bounded_logging(U):
    """Bounded: what a query returns does not depend on the logging configuration of the application: region() and limit=
    queries with the root logger (and the gffutils loggers) at DEBUG, against the statement"""
    import logging
    import io
    import gffutils.feature as F_
    fails, cases = [], 0
    feats = [F_.Feature(seqid="c", source="s", featuretype="gene", start=1, end=5000, strand="+", attributes={"ID": ["g"]})]
    for i, (a, b) in enumerate(((10, 20), (15, 40), (100, 200), (150, 150), (4000, 4500), (131000, 131100))):
        feats.append(F_.Feature(seqid="c", source="s", featuretype="exon", start=a, end=b, strand="+-"[i % 2], attributes={"ID": ["x%d" % i], "Parent": ["g"]}))
    db = gffutils.create_db(feats, ":memory:")
    root = logging.getLogger()
    names = [n for n in list(logging.root.manager.loggerDict) if n == "gffutils" or n.startswith("gffutils.")] + ["gffutils", "gffutils.interface", "gffutils.helpers"]
    saved = [(root, root.level, list(root.handlers))] + [(logging.getLogger(n), logging.getLogger(n).level, None) for n in set(names)]
    sink = logging.StreamHandler(io.StringIO())
    disabled = logging.root.manager.disable          # (the checker itself runs with logging.disable(CRITICAL): lift it for this unit)
    try:
        logging.disable(logging.NOTSET)
        root.handlers = [sink]
        for lg, _, _ in saved:
            lg.setLevel(logging.DEBUG)
        for qs, qe in ((1, 30), (15, 15), (18, 120), (150, 150), (1, 6000), (130000, 132000), (4100, 4200)):
            for cw in (False, True):
                want = lambda pool: sorted(f.id for f in pool if ((qs <= f.start and f.end <= qe) if cw else (f.start <= qe and f.end >= qs)))
                for name, fn, pool in (("region", lambda: db.region(("c", qs, qe), completely_within=cw), feats),
                                       ("region(featuretype)", lambda: db.region(("c", qs, qe), completely_within=cw, featuretype="exon"), feats[1:]),
                                       ("all_features(limit)", lambda: db.all_features(limit=("c", qs, qe), completely_within=cw), feats),
                                       ("children(limit)", lambda: db.children("g", limit=("c", qs, qe), completely_within=cw), feats[1:])):
                    cases += 1
                    try:
                        got = sorted(f.id for f in fn())
                    except Exception as e:
                        got = "raised %r" % (e,)
                    if got != want(pool):
                        fails.append({"case": {"call": name, "interval": [qs, qe], "completely_within": cw, "logging": "root and gffutils loggers at DEBUG"}, "expected": want(pool), "observed": got})
    finally:
        logging.disable(disabled)
        for lg, lvl, handlers in saved:
            lg.setLevel(lvl)
            if handlers is not None:
                lg.handlers = handlers
    U.bounded_result("C06.bounded.debug_logging", "region() / limit= results with DEBUG logging switched on == the statement's set", "7 features, 7 intervals x {overlap, within} x 4 entry points, loggers at DEBUG", cases, fails)


def unit_bounded_after_update(U):
    """Bounded: region() / limit= see what update() added on the SAME FeatureDB object - also features on a seqid the database
    did not have before, also when region() / seqids() were called before the update"""
    import gffutils.feature as F_
    fails, cases = [], 0
    mk = lambda i, sq, a, b: F_.Feature(seqid=sq, source="s", featuretype="exon", start=a, end=b, strand="+", attributes={"ID": [i]})
    for warm in ("region", "seqids", "nothing"):
        db = gffutils.create_db([mk("a1", "chr1", 10, 20), mk("a2", "chr1", 100, 200)], ":memory:")
        if warm == "region":
            list(db.region(("chr1", 1, 50)))
            list(db.region(("chr2", 1, 50)))
        elif warm == "seqids":
            list(db.seqids())
        db.update([mk("b1", "chr2", 10, 20), mk("b2", "chr2", 500, 600), mk("a3", "chr1", 15, 30)], make_backup=False)
        for (sq, qs, qe), exp in ((("chr2", 1, 1000), ["b1", "b2"]), (("chr2", 15, 15), ["b1"]), (("chr1", 1, 50), ["a1", "a3"])):
            for name, fn in (("region(tuple)", lambda: db.region((sq, qs, qe))), ("region(string)", lambda: db.region("%s:%d-%d" % (sq, qs, qe))),
                             ("region(kwargs)", lambda: db.region(seqid=sq, start=qs, end=qe)), ("all_features(limit)", lambda: db.all_features(limit=(sq, qs, qe)))):
                cases += 1
                got = sorted(f.id for f in fn())
                if got != exp:
                    fails.append({"case": {"before the update": warm, "call": name, "interval": [sq, qs, qe]}, "expected": exp, "observed": got})
        cases += 1
        if sorted(db.seqids()) != ["chr1", "chr2"]:
            fails.append({"case": {"before the update": warm, "call": "seqids()"}, "expected": ["chr1", "chr2"], "observed": sorted(db.seqids())})
    U.bounded_result("C06.bounded.after_update", "region / limit / seqids after update() on the same object == the statement on the updated contents", "3 warm-ups x 3 intervals x 4 entry points", cases, fails)


def unit_bounded_deferred(U):
    """Bounded: what a region() / limit= call yields is fixed by ITS arguments, whenever the returned iterator is consumed:
    iterators obtained first and consumed later, consumed in lock-step, or consumed after other queries ran on the same
    FeatureDB object, all give the statement's set"""
    import gffutils.feature as F_
    fails, cases = [], 0
    mk = lambda i, sq, a, b, t="exon": F_.Feature(seqid=sq, source="s", featuretype=t, start=a, end=b, strand="+", attributes={"ID": [i]})
    feats = [mk("a1", "chr1", 10, 20), mk("a2", "chr1", 100, 200), mk("a3", "chr1", 150, 400, "gene"), mk("b1", "chr2", 10, 20), mk("b2", "chr2", 500, 600, "gene")]
    db = gffutils.create_db(feats, ":memory:")
    queries = [("chr1", 1, 50), ("chr1", 120, 160), ("chr2", 1, 1000), ("chr1", 1000, 2000), ("chr2", 15, 15)]
    spec = lambda q: sorted(f.attributes["ID"][0] for f in feats if f.seqid == q[0] and f.start <= q[2] and f.end >= q[1])
    entries = (("region(tuple)", lambda q: db.region(q)), ("region(string)", lambda q: db.region("%s:%d-%d" % q)), ("region(kwargs)", lambda q: db.region(seqid=q[0], start=q[1], end=q[2])),
               ("all_features(limit)", lambda q: db.all_features(limit=q)), ("features_of_type(limit)", lambda q: db.features_of_type(("exon", "gene"), limit=q)))
    for name, fn in entries:
        cases += 1
        its = [fn(q) for q in queries]                       # all obtained before any is consumed
        got = [sorted(f.id for f in it) for it in its]
        if got != [spec(q) for q in queries]:
            fails.append({"case": {"call": name, "history": "all iterators obtained first, consumed afterwards", "intervals": queries}, "expected": [spec(q) for q in queries], "observed": got})
        cases += 1
        i1, i2 = fn(queries[1]), fn(queries[2])              # lock-step
        g1, g2 = [], []
        for x, y in itertools.zip_longest(i1, i2):
            if x is not None:
                g1.append(x.id)
            if y is not None:
                g2.append(y.id)
        if [sorted(g1), sorted(g2)] != [spec(queries[1]), spec(queries[2])]:
            fails.append({"case": {"call": name, "history": "two iterators consumed in lock-step", "intervals": [queries[1], queries[2]]}, "expected": [spec(queries[1]), spec(queries[2])], "observed": [sorted(g1), sorted(g2)]})
        for between, run in (("children()", lambda: list(db.children("a3"))), ("all_features()", lambda: list(db.all_features())), ("count_features_of_type()", lambda: db.count_features_of_type("exon")),
                             ("db[key]", lambda: db["b1"]), ("another region()", lambda: list(db.region(("chr2", 1, 1000))))):
            cases += 1
            hits = fn(queries[0])
            run()
            got = sorted(f.id for f in hits)
            if got != spec(queries[0]):
                fails.append({"case": {"call": name, "history": "obtained, then %s on the same object, then consumed" % between, "interval": queries[0]}, "expected": spec(queries[0]), "observed": got})
    U.bounded_result("C06.bounded.deferred_consumption", "a region / limit iterator yields its own call's set whenever it is consumed", "5 entry points x {obtained first, lock-step, 5 intervening queries}", cases, fails)


def unit_bounded_query_sequences(U):
    """Bounded: what a limit= / region query returns does not depend on the queries made before it in the process: intervals
    that share their smallest enclosing bin but cover different 128 kb bins, asked one after the other, in both orders, on
    one FeatureDB and on a fresh one"""
    import gffutils.feature as F_
    fails, cases = [], 0
    K = 131072
    mk = lambda i, a, b: F_.Feature(seqid="chr1", source="s", featuretype="exon", start=a, end=b, strand="+", attributes={"ID": [i]})
    feats = [mk("f%d" % k, k * K + 10, k * K + 500) for k in range(6)] + [mk("x%d" % k, k * K - 50, k * K + 50) for k in range(1, 6)] + [mk("big", 2 ** 29 + 5, 2 ** 29 + 900)]
    queries = [("chr1", 100, K + 1000), ("chr1", 2 * K + 5000, 3 * K + 70000), ("chr1", 4 * K + 1, 5 * K + 600), ("chr1", 1, 2 ** 29 + 100), ("chr1", K - 10, 4 * K + 10), ("chr1", 3 * K + 600, 4 * K - 100)]
    spec = lambda q: sorted(f.attributes["ID"][0] for f in feats if f.start <= q[2] and f.end >= q[1])
    for order in (queries, queries[::-1], queries[1:] + queries[:1]):
        for same_db in (True, False):
            db = gffutils.create_db(feats, ":memory:")
            for q in order:
                if not same_db:
                    db = gffutils.create_db(feats, ":memory:")
                for name, fn in (("all_features(limit)", lambda: db.all_features(limit=q)), ("features_of_type(limit)", lambda: db.features_of_type("exon", limit="%s:%d-%d" % q)), ("region", lambda: db.region(q))):
                    cases += 1
                    got = sorted(f.id for f in fn())
                    if got != spec(q):
                        fails.append({"case": {"call": name, "interval": list(q), "queries made before in this process": [list(x) for x in order[:order.index(q)]], "same FeatureDB": same_db}, "expected": spec(q), "observed": got})
    U.bounded_result("C06.bounded.query_sequences", "a limit / region query returns the statement's set whatever queries came before it", "6 intervals across 128 kb bin boundaries x 3 orders x same / fresh FeatureDB x 3 entry points", cases, fails)


from pyvc.harness import dep_unit as _dep_unit

UNITS = [("dep.stored_bin", _dep_unit("C12", "unit_stored_bin", "C12", "C06.dep", "the representation invariant the region / limit clauses ASSUME of stored rows - bin == bins(start, end) after every statement that writes a features row (the C12 obligations) - discharged in this check as well")), ("bounded.query_sequences", unit_bounded_query_sequences), ("bounded.deferred", unit_bounded_deferred), ("schema", unit_schema), ("bounded.after_update", unit_bounded_after_update), ("bounded.debug_logging", unit_bounded_logging), ("limit", unit_limit), ("region", unit_region), ("sqlmodel", unit_sqlmodel_validation), ("bounded", unit_bounded), ("bounded.straddle", unit_bounded_straddle)]


def replay_file(doc):
    return {"error": "re-run ./check C06 to regenerate and replay this obligation (inputs are model-dependent)", "violates": None,
            "stored": doc.get("inputs")}
