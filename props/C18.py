"""C18 - coordinate conventions of exports: length, sequence and BED12."""
import z3

import gffutils
import gffutils.feature as F
import gffutils.interface as I
import gffutils.convert as CV
from gffutils import constants
from gffutils.attributes import Attributes

from pyvc.core import SBool, SInt, SStr, SSeq, Val, Lit, IntLit, SeqLit, Undecided, Ctx, mkstr
from pyvc.interp import Interp
from pyvc import ghostdb
from pyvc.harness import split_atoms
from contracts.common import blank_feature
from contracts.qharness import blank_db, native_db
from props.C04 import _streq

LEVEL = "proof"
EXPLANATION = ("Feature.__len__, Feature.sequence (pyfaidx replaced by an assumed contract object recording the slice and the "
               "reverse/complement calls), FeatureDB.bed12 and convert.to_bed12 are executed symbolically from their real AST. For "
               "bed12 the block and thick children are abstract lists of arbitrary length (children() by its C02/C11 contract), "
               "the per-block fields are obtained by the pointwise comprehension rule; every path is proved against the statement: "
               "chromStart = start-1, chromEnd = end, blockCount = n, blockSizes[i] = len(b_i), blockStarts[i] = b_i.start-1-chromStart, "
               "thickStart/End from the thick features when present, ValueError exactly when first/last block do not span the "
               "feature or both thick and thin are given, the internal assert can never fail, id and Feature arguments alike.")
TRUSTED = ["T1 incl. pointwise comprehension rule over abstract sequences"]
ASSUMPTIONS = ["A-F pyfaidx: fasta[chrom][a:b] is the 0-based half-open slice, .reverse.complement the reverse complement, .seq the string",
               "children(order_by='start') returns the block features ascending by start (C02/C11 contracts)", "stored features have start <= end"]
PRECONDITIONS = ["column values contain no tab", "block features have integer coordinates with start <= end"]
FUNCTIONS = ["gffutils.interface:FeatureDB.__getitem__", "gffutils.feature:Feature.__len__", "gffutils.feature:Feature.sequence", "gffutils.interface:FeatureDB.bed12", "gffutils.convert:to_bed12"]

NOTAB = frozenset("\t\n\r")


class GhostSeq(object):
    _pyvc_model = True

    def __init__(self, chrom, sl, ops=(), src=None):
        self.chrom, self.sl, self.ops, self.src = chrom, sl, tuple(ops), src          # src: the opened file it was read from

    @property
    def reverse(self):
        return GhostSeq(self.chrom, self.sl, self.ops + ("reverse",), self.src)

    @property
    def complement(self):
        return GhostSeq(self.chrom, self.sl, self.ops + ("complement",), self.src)

    @property
    def seq(self):
        return ("seq", self)


class GhostChrom(object):
    _pyvc_model = True

    def __init__(self, chrom, src=None):
        self.chrom, self.src = chrom, src

    def __getitem__(self, sl):
        return GhostSeq(self.chrom, sl, (), self.src)


class GhostFasta(object):
    """assumed pyfaidx contract A-F: fasta[chrom][a:b] is the 0-based half-open slice, .reverse.complement the reverse
    complement; fasta.get_seq(chrom, start, end, rc=False) is the 1-based closed interval, i.e. fasta[chrom][start-1:end],
    reverse-complemented when rc"""
    _pyvc_model = True

    def __getitem__(self, chrom):
        return GhostChrom(chrom, self)

    def get_seq(self, chrom, start, end, rc=False):
        from pyvc.core import Ctx
        lo = SInt(start.e - 1) if isinstance(start, SInt) else start - 1
        g = GhostSeq(chrom, slice(lo if isinstance(lo, SInt) else SInt(z3.IntVal(lo)), end if isinstance(end, SInt) else SInt(z3.IntVal(end)), None), (), self)
        if isinstance(rc, SBool):
            rc = Ctx.current.branch(rc.e, "get_seq-rc")
        return g.reverse.complement if rc else g


def unit_len_sequence(U):
    it = Interp()
    s, e = z3.Int("start"), z3.Int("end")
    vars_ = {"start": s, "end": e}

    def run(ctx):
        f = blank_feature(start=SInt(s), end=SInt(e))
        return it.call(F.Feature.__len__, [f], {})
    for p in U.explore(run, it):
        ok = p.kind == "return" and isinstance(p.value, SInt)
        U.prove("C18.len#p%d" % p.index, "len(feature) == end - start + 1", p.pc, (p.value.e == e - s + 1) if ok else z3.BoolVal(False), vars_,
                replay=lambda m: {"inputs": m, "expected": m["end"] - m["start"] + 1, "observed": F.Feature(start=m["start"], end=m["end"]).__len__(),
                                  "violates": F.Feature(start=m["start"], end=m["end"]).__len__() != m["end"] - m["start"] + 1})

    # len() is a function of the CURRENT coordinates: measured, then one coordinate changed (by any of the ways a Feature
    # offers), measured again
    for how in ("end", "stop", "start", "item4"):
        it2 = Interp()
        s1, e1, x = z3.Int("start"), z3.Int("end"), z3.Int("new")

        def run_edit(ctx, how=how):
            f = F.Feature(seqid="c", start=1, end=2)
            it2.setattr(f, "start", SInt(s1))
            it2.setattr(f, "end", SInt(e1))
            n1 = it2.call(F.Feature.__len__, [f], {})
            if how == "item4":
                it2.call(F.Feature.__setitem__, [f, 4, SInt(x)], {})
            else:
                it2.setattr(f, how, SInt(x))
            n2 = it2.call(F.Feature.__len__, [f], {})
            return n1, n2

        def replay_edit(m, how=how):
            for (a, b, c) in ((int(m.get("start", 101)), int(m.get("end", 250)), int(m.get("new", 392))), (101, 250, 392), (5, 9, 7)):
                if b - a + 1 < 0:
                    continue
                f = F.Feature(seqid="c", start=a, end=b)
                len(f)
                if how == "item4":
                    f[4] = c
                else:
                    setattr(f, how, c)
                st, en = (c, b) if how == "start" else (a, c)
                if en - st + 1 < 0:
                    continue
                n2 = len(f)
                if n2 != en - st + 1:
                    return {"inputs": {"start": a, "end": b, "then": "len(feature); %s = %d; len(feature)" % ("feature[4]" if how == "item4" else "feature." + how, c)}, "expected": en - st + 1, "observed": n2, "violates": True}
            return {"inputs": m, "violates": False}
        for p in U.explore(run_edit, it2):
            ok = p.kind == "return" and all(isinstance(v, SInt) for v in p.value)
            if how == "start":
                goal = z3.And(p.value[0].e == e1 - s1 + 1, p.value[1].e == e1 - x + 1) if ok else z3.BoolVal(False)
            else:
                goal = z3.And(p.value[0].e == e1 - s1 + 1, p.value[1].e == x - s1 + 1) if ok else z3.BoolVal(False)
            U.prove("C18.len.after_edit[%s]#p%d" % (how, p.index), "len(feature) follows the coordinates: after %s is assigned, len is computed from the new value" % ("feature[4]" if how == "item4" else "feature." + how),
                    p.pc, goal, {"start": s1, "end": e1, "new": x}, replay=replay_edit)

    for use_strand in (True, False):
        strand = z3.String("strand")

        def run2(ctx, use_strand=use_strand):
            f = blank_feature(start=SInt(s), end=SInt(e), strand=SStr([Val(strand)]), seqid=SStr([Val(z3.String("chrom"))]))
            ctx.stash["f"] = f
            return it.call(F.Feature.sequence, [f, GhostFasta()], {"use_strand": use_strand})

        def replay(m, use_strand=use_strand):
            # the model's coordinates when they lie inside the reference, then a neighbourhood:
            # single bases at both ends, the whole reference, an inner interval; all three strands
            import tempfile, os, shutil
            d = tempfile.mkdtemp()
            try:
                fa = os.path.join(d, "x.fa")
                seq = "ACGTTGCAAGGCTTAACCGGATATCG"
                open(fa, "w").write(">c1\n%s\n" % seq)
                st0 = m.get("strand", "+")
                cands = []
                a0, b0 = m.get("start"), m.get("end")
                if isinstance(a0, int) and isinstance(b0, int) and 1 <= a0 <= b0 <= len(seq):
                    cands.append((a0, b0))
                cands += [(3, 11), (5, 5), (1, 1), (len(seq), len(seq)), (1, len(seq)), (7, 8)]
                last = None
                for st in ([st0] if st0 in ("+", "-", ".") else []) + ["-", "+", "."]:
                    for a, b in cands:
                        f = F.Feature(seqid="c1", start=a, end=b, strand=st)
                        try:
                            got = f.sequence(fa, use_strand=use_strand)
                        except Exception as ex:
                            got = "raised %r" % (ex,)
                        exp = seq[a - 1:b]
                        if use_strand and st == "-":
                            exp = exp[::-1].translate(str.maketrans("ACGT", "TGCA"))
                        last = {"inputs": {"strand": st, "use_strand": use_strand, "start": a, "end": b}, "expected": exp, "observed": got, "violates": got != exp or len(got) != len(f)}
                        if last["violates"]:
                            return last
                return last
            finally:
                shutil.rmtree(d, ignore_errors=True)
        for p in U.explore(run2, it):
            ok = p.kind == "return" and isinstance(p.value, tuple) and p.value[0] == "seq"
            goal = z3.BoolVal(False)
            if ok:
                g = p.value[1]
                f = p.ctx.stash["f"]
                sl = g.sl
                okshape = isinstance(sl, slice) and sl.step is None and isinstance(sl.start, SInt) and isinstance(sl.stop, SInt) and g.chrom is f.seqid
                if okshape:
                    rc = z3.BoolVal(g.ops == ("reverse", "complement"))
                    plain = z3.BoolVal(g.ops == ())
                    minus = strand == z3.StringVal("-")
                    want_rc = z3.And(z3.BoolVal(use_strand), minus)
                    goal = z3.And(sl.start.e == s - 1, sl.stop.e == e, z3.If(want_rc, rc, plain))
            U.prove("C18.sequence[use_strand=%s]#p%d" % (use_strand, p.index),
                    "sequence == slice [start-1 : end] of fasta[seqid] (length == len(feature) inside the reference), reverse-complemented iff use_strand and strand == '-'",
                    p.pc, goal, dict(vars_, strand=strand), replay=replay)


def unit_sequence_filename(U):
    """a FASTA given by file NAME is opened by the call that uses it: two sequence(path) calls open the path twice (through
    pyfaidx.Fasta, contract A-F) and slice what they opened - so the bases returned are those of the file named at the time
    of the call, also when an earlier call named the same path"""
    it = Interp()
    s, e = z3.Int("start"), z3.Int("end")

    def fasta_contract(interp, a, k):
        g = GhostFasta()
        Ctx.current.effect("fasta-open", a[0] if a else k.get("filename"), g)
        return g
    it.contracts[F.Fasta] = fasta_contract

    def run(ctx):
        f = blank_feature(start=SInt(s), end=SInt(e), strand="+", seqid="c1")
        r1 = it.call(F.Feature.sequence, [f, "ref.fa"], {})
        r2 = it.call(F.Feature.sequence, [f, "ref.fa"], {})
        return r1, r2

    def replay(m):
        import tempfile, os, shutil
        d = tempfile.mkdtemp()
        try:
            fa = os.path.join(d, "genome.fa")
            f = F.Feature(seqid="c1", start=3, end=9, strand="+")
            out, exp = [], []
            for seq in ("ACGTTGCAAGGCTTAACC", "TTTTTTTTTTTTGGGGGGGGGGGGGG", "CCGG" * 3):
                for x in (fa, fa + ".fai"):
                    if os.path.exists(x):
                        os.remove(x)
                open(fa, "w").write(">c1\n%s\n" % seq)
                out.append(f.sequence(fa))
                exp.append(seq[2:9])
            return {"inputs": "sequence(path) / replace the file at that path (and its .fai) / sequence(path) again, three references", "expected": exp, "observed": out, "violates": out != exp}
        finally:
            shutil.rmtree(d, ignore_errors=True)
    for p in U.explore(run, it):
        ok = p.kind == "return"
        if ok:
            opens = [x for x in p.ctx.effects if x[0] == "fasta-open"]
            r1, r2 = p.value
            ok = (len(opens) == 2 and all(x[1] == "ref.fa" for x in opens) and isinstance(r1, tuple) and isinstance(r2, tuple) and r1[0] == "seq" and r2[0] == "seq"
                  and r1[1].src is opens[0][2] and r2[1].src is opens[1][2])
        U.prove("C18.sequence.filename.reopened#p%d" % p.index, "each sequence(<file name>) call opens that file itself and reads from what it opened (nothing kept from an earlier call)", [], z3.BoolVal(bool(ok)), {}, replay=replay)


def _blocks(name):
    """abstract list of block features (arbitrary length); elements have integer start <= end"""
    n = z3.Int(name + ".n")
    sf = z3.Function(name + ".start", z3.IntSort(), z3.IntSort())
    ef = z3.Function(name + ".end", z3.IntSort(), z3.IntSort())
    cache = {}

    def elem(i):
        i = i if isinstance(i, z3.ExprRef) else z3.IntVal(i)
        k = str(z3.simplify(i))
        if k not in cache:
            Ctx.current.assume(sf(i) <= ef(i))
            cache[k] = blank_feature(start=SInt(sf(i)), end=SInt(ef(i)), featuretype="exon")
        return cache[k]
    return SSeq(n, elem, name=name, kind="features"), n, sf, ef


def _bed12_run(it, argform, thick_mode, name_present):
    def run(ctx):
        T_start, T_end = z3.Int("t.start"), z3.Int("t.end")
        chrom = SStr([Val(z3.String("t.seqid"), excl=NOTAB)])
        strand = SStr([Val(z3.String("t.strand"), excl=NOTAB)])
        score = SStr([Val(z3.String("t.score"), excl=NOTAB)])
        name = SStr([Val(z3.String("t.name"), excl=NOTAB)])
        a = object.__new__(Attributes)
        a._d = {"ID": [name]} if name_present else {"Other": ["x"]}
        T = blank_feature(seqid=chrom, start=SInt(T_start), end=SInt(T_end), strand=strand, score=score, attributes=a, id=SStr([Val(z3.String("t.id"))]))
        ctx.assume(T_start <= T_end)
        exons, n, sf, ef = _blocks("blk")
        thick, tn, tsf, tef = _blocks("thk")
        ctx.assume(n >= 0)
        ctx.assume(tn >= 0)
        calls = []

        def children(interp, args, kwargs):
            calls.append((args, kwargs))
            return exons if len(calls) == 1 else thick

        def getitem(interp, args, kwargs):
            return T
        it.contracts[I.FeatureDB.children] = children
        it.contracts[I.FeatureDB.__getitem__] = getitem
        db = blank_db()
        arg = T if argform == "feature" else T.id
        kw = {}
        if thick_mode == "thin":
            kw = {"thick_featuretype": None, "thin_featuretype": ["five_prime_UTR"]}
        elif thick_mode == "both":
            kw = {"thin_featuretype": ["UTR"]}
        elif thick_mode == "neither":
            kw = {"thick_featuretype": None}
        ctx.stash.update(T=T, T_start=T_start, T_end=T_end, n=n, sf=sf, ef=ef, tn=tn, tsf=tsf, tef=tef, calls=calls, name=name, chrom=chrom, strand=strand, score=score)
        return it.call(I.FeatureDB.bed12, [db, arg], kw)
    return run


def _native_bed12(argform, exon_coords, cds_coords, tcoords, thick_mode="thick"):
    feats = []
    t = F.Feature(seqid="chr1", source="s", featuretype="mRNA", start=tcoords[0], end=tcoords[1], strand="-", attributes={"ID": ["t1"]})
    t.id = "t1"
    feats.append(t)
    rels = []
    for j, (a, b) in enumerate(exon_coords):
        f = F.Feature(seqid="chr1", source="s", featuretype="exon", start=a, end=b, strand="-", attributes={"ID": ["e%d" % j]})
        f.id = "e%d" % j
        feats.append(f)
        rels.append(("t1", f.id, 1))
    for j, (a, b) in enumerate(cds_coords):
        f = F.Feature(seqid="chr1", source="s", featuretype="CDS", start=a, end=b, strand="-", attributes={"ID": ["c%d" % j]})
        f.id = "c%d" % j
        feats.append(f)
        rels.append(("t1", f.id, 1))
    db = native_db(feats, rels)
    arg = "t1" if argform == "id" else db["t1"]
    if thick_mode == "thin":
        return db.bed12(arg, thick_featuretype=None, thin_featuretype=["five_prime_UTR"])
    if thick_mode == "neither":
        return db.bed12(arg, thick_featuretype=None)
    return db.bed12(arg)


def unit_bed12(U):
    for argform in ("feature", "id"):
        for thick_mode in ("thick", "thin", "both", "neither"):
            for name_present in (True, False):
                if not U.thorough and not name_present and (thick_mode != "thick" or argform != "feature"):
                    continue
                it = Interp()
                run = _bed12_run(it, argform, thick_mode, name_present)
                base = "C18.bed12[%s,%s,name=%s]" % (argform, thick_mode, name_present)

                def replay(m, argform=argform, thick_mode=thick_mode):
                    # exercise the real method on small instances, incl. no block children and non-spanning blocks
                    out = []
                    bad = False
                    for ex, cds, tc, expect in (([(10, 20), (31, 40)], [(12, 18), (33, 35)], (10, 40), "ok"), ([], [], (5, 9), "ok"),
                                                ([(11, 20)], [], (10, 20), "ValueError"), ([(10, 19)], [], (10, 20), "ValueError"),
                                                ([(31, 40), (10, 20)], [(33, 35), (12, 18)], (10, 40), "ok"),
                                                # overlapping / nested blocks: the block with the largest start is not the one reaching the end
                                                ([(501, 600), (520, 550)], [], (501, 600), "ValueError"), ([(301, 360), (340, 400), (350, 380)], [], (301, 400), "ValueError"),
                                                ([(10, 20), (15, 40), (30, 35)], [], (10, 40), "ValueError")):
                        try:
                            r = _native_bed12(argform, ex, cds, tc, thick_mode)
                            fields = r.split("\t")
                            blocks = sorted(ex) or [tc]
                            good = (len(fields) == 12 and int(fields[1]) == tc[0] - 1 and int(fields[2]) == tc[1] and int(fields[9]) == len(blocks)
                                    and fields[10] == ",".join(str(b - a + 1) for a, b in blocks) and fields[11] == ",".join(str(a - tc[0]) for a, b in blocks))
                            if cds and thick_mode == "thick":
                                good = good and int(fields[6]) == min(a for a, b in cds) - 1 and int(fields[7]) == max(b for a, b in cds)
                            obs = "ok" if good else "wrong fields: %r" % (r,)
                        except ValueError:
                            obs = "ValueError"
                        except Exception as e:
                            obs = "raised %r" % (e,)
                        out.append((ex, tc, expect, obs))
                        if obs != expect:
                            bad = True
                    return {"inputs": {"arg": argform, "mode": thick_mode}, "expected": [o[2] for o in out], "observed": [o[3] for o in out], "violates": bad}
                for p in U.explore(run, it):
                    st = p.ctx.stash
                    T_start, T_end, n, sf, ef = st["T_start"], st["T_end"], st["n"], st["sf"], st["ef"]
                    vars_ = {"t.start": T_start, "t.end": T_end, "blk.n": n, "thk.n": st["tn"]}
                    is_ve = p.kind == "raise" and isinstance(p.value, ValueError)
                    is_ret = p.kind == "return"
                    if thick_mode == "both":
                        U.prove(base + ".both#p%d" % p.index, "both thick and thin featuretypes given ==> ValueError", p.pc, z3.BoolVal(is_ve), vars_, replay=replay)
                        continue
                    if not (is_ve or is_ret):
                        U.prove(base + ".outcome#p%d" % p.index, "bed12 returns a line or raises ValueError, nothing else (got %r)" % (p.value,), p.pc, z3.BoolVal(False), vars_, replay=replay)
                        continue
                    # spanning condition in terms of the block list (a feature without block children is its own block)
                    first = z3.If(n > 0, sf(0), T_start)
                    last = z3.If(n > 0, ef(n - 1), T_end)
                    spans = z3.And(first == T_start, last == T_end)
                    U.prove(base + ".span#p%d" % p.index, "ValueError exactly when the first block does not start at feature.start or the last block does not end at feature.end",
                            p.pc, z3.BoolVal(is_ve) == z3.Not(spans), vars_, replay=replay)
                    if not is_ret:
                        continue
                    r = p.value
                    parts = split_atoms(r, "\t")
                    ok12 = len(parts) == 12
                    U.prove(base + ".twelve#p%d" % p.index, "twelve tab-separated fields", p.pc, z3.BoolVal(ok12), vars_, replay=replay)
                    if not ok12:
                        continue

                    def intlit(x):
                        x = SStr.of(x)
                        c = x.concrete()
                        if c is not None and c.lstrip("-").isdigit():
                            return z3.IntVal(int(c))
                        return x.atoms[0].e if len(x.atoms) == 1 and isinstance(x.atoms[0], IntLit) else None

                    def seqlit(x):
                        x = SStr.of(x)
                        return x.atoms[0].seq if len(x.atoms) == 1 and isinstance(x.atoms[0], SeqLit) and x.atoms[0].sep == "," else None
                    cs, ce, cnt = intlit(parts[1]), intlit(parts[2]), intlit(parts[9])
                    goal = z3.BoolVal(False)
                    if cs is not None and ce is not None and cnt is not None:
                        goal = z3.And(cs == T_start - 1, ce == T_end, cnt == z3.If(n > 0, n, 1), _streq(parts[0], st["chrom"]), _streq(parts[5], st["strand"]),
                                      _streq(parts[8], "0,0,0"), _streq(parts[3], st["name"] if name_present else "."),
                                      z3.If(st["score"].z3() == z3.StringVal("."), _streq(parts[4], "0"), _streq(parts[4], st["score"])))
                    U.prove(base + ".fixed#p%d" % p.index, "chrom, chromStart = start-1, chromEnd = end, name, score ('.' -> '0'), strand, itemRgb, blockCount = number of blocks",
                            p.pc, goal, vars_, replay=replay)
                    # per-block fields for an arbitrary index
                    j = z3.Int("j")
                    sizes, starts = seqlit(parts[10]), seqlit(parts[11])
                    goal = z3.BoolVal(False)
                    hy = list(p.pc)
                    if sizes is not None and starts is not None:
                        hy = hy + [j >= 0, j < n, sf(j) <= ef(j)]
                        goal = z3.And(sizes.length == n, starts.length == n, sizes.elem(j).e == ef(j) - sf(j) + 1, starts.elem(j).e == sf(j) - 1 - (T_start - 1))
                    else:
                        # single-block path: the feature itself
                        s0, t0 = intlit(parts[10]), intlit(parts[11])
                        if s0 is not None and t0 is not None:
                            goal = z3.And(n == 0, s0 == T_end - T_start + 1, t0 == 0)
                    U.prove(base + ".blocks#p%d" % p.index, "for every block j: blockSizes[j] == len(b_j) and blockStarts[j] == b_j.start - 1 - chromStart, in the order of children(order_by='start')",
                            hy, goal, dict(vars_, j=j), replay=replay)
                    # thick fields
                    ts, te = intlit(parts[6]), intlit(parts[7])
                    tn, tsf, tef = st["tn"], st["tsf"], st["tef"]
                    goal = z3.BoolVal(False)
                    if ts is not None and te is not None:
                        if thick_mode == "thick":
                            goal = z3.Implies(tn > 0, z3.And(ts == tsf(0) - 1, te == tef(tn - 1)))
                        elif thick_mode == "thin":
                            goal = z3.Implies(tn > 0, z3.And(ts == tef(0), te == tsf(tn - 1) - 1))
                        else:
                            goal = z3.BoolVal(True)
                    elif thick_mode == "neither":
                        goal = z3.BoolVal(False)
                    if thick_mode == "neither" and ts is not None and te is not None:
                        goal = z3.BoolVal(True)         # the statement fixes thickStart/thickEnd only when thick features are present
                    U.prove(base + ".thick#p%d" % p.index, "thickStart/thickEnd taken from the thick (resp. thin) features when present: first.start-1 .. last.end", p.pc, goal, vars_, replay=replay)
                    # children() was asked for the block types ordered by start
                    calls = st["calls"]
                    okc = len(calls) >= 1 and calls[0][1].get("order_by") == "start" and calls[0][1].get("featuretype") == ["exon"]
                    if thick_mode in ("thick", "thin"):
                        want_ft = ["CDS"] if thick_mode == "thick" else ["five_prime_UTR"]
                        okc = okc and len(calls) == 2 and calls[1][1].get("order_by") == "start" and calls[1][1].get("featuretype") == want_ft
                    else:
                        okc = okc and len(calls) == 1
                    U.prove(base + ".order#p%d" % p.index, "blocks and thick/thin features are the children of the respective featuretype in ascending start order (children(order_by='start')), so first/last are left-most/right-most", [], z3.BoolVal(okc), {}, replay=replay)


def unit_to_bed12(U):
    it = Interp()

    def run(ctx):
        T_start, T_end = z3.Int("t.start"), z3.Int("t.end")
        a = object.__new__(Attributes)
        name = SStr([Val(z3.String("t.name"), excl=NOTAB)])
        a._d = {"ID": [name]}
        T = blank_feature(seqid=SStr([Val(z3.String("t.seqid"), excl=NOTAB)]), start=SInt(T_start), end=SInt(T_end),
                          strand=SStr([Val(z3.String("t.strand"), excl=NOTAB)]), score=SStr([Val(z3.String("t.score"), excl=NOTAB)]), attributes=a)
        exons, n, sf, ef = _blocks("blk")
        ctx.assume(n >= 0)

        class DB(object):
            _pyvc_model = True

            def children(self, f, **kw):
                ctx.stash["kw"] = kw
                return exons
        ctx.stash.update(T_start=T_start, T_end=T_end, n=n, sf=sf, ef=ef)
        return it.call(CV.to_bed12, [T, DB()], {})

    def replay(m):
        feats = []
        t = F.Feature(seqid="chr1", featuretype="mRNA", start=10, end=40, strand="+", attributes={"ID": ["t1"]})
        t.id = "t1"
        rels = []
        feats.append(t)
        for j, (a, b) in enumerate([(31, 40), (10, 20)]):
            f = F.Feature(seqid="chr1", featuretype="exon", start=a, end=b, strand="+", attributes={"ID": ["e%d" % j]})
            f.id = "e%d" % j
            feats.append(f)
            rels.append(("t1", f.id, 1))
        db = native_db(feats, rels)
        r = CV.to_bed12(db["t1"], db).rstrip("\n").split("\t")
        exp = ["chr1", "9", "40", "t1", ".", "+", "10", "40", "0,0,0", "2", "11,10", "0,21"]
        return {"expected": exp, "observed": r, "violates": r != exp}
    for p in U.explore(run, it):
        st = p.ctx.stash
        T_start, T_end, n, sf, ef = st["T_start"], st["T_end"], st["n"], st["sf"], st["ef"]
        if p.kind != "return":
            U.prove("C18.to_bed12.noraise#p%d" % p.index, "raises nothing (got %r)" % (p.value,), p.pc, z3.BoolVal(False), {}, replay=replay)
            continue
        r = SStr.of(p.value)
        endsnl = bool(r.atoms) and isinstance(r.atoms[-1], Lit) and r.atoms[-1].s.endswith("\n")
        body = SStr(list(r.atoms[:-1]) + [Lit(r.atoms[-1].s[:-1])]) if endsnl else r
        parts = split_atoms(body, "\t")
        j = z3.Int("j")
        goal = z3.BoolVal(False)
        hy = list(p.pc)
        if len(parts) == 12 and endsnl:
            def intlit(x):
                x = SStr.of(x)
                c = x.concrete()
                if c is not None and c.lstrip("-").isdigit():
                    return z3.IntVal(int(c))
                return x.atoms[0].e if len(x.atoms) == 1 and isinstance(x.atoms[0], IntLit) else None
            cs, ce, cnt = intlit(parts[1]), intlit(parts[2]), intlit(parts[9])
            if n_is_nonempty(p, n):
                sizes = SStr.of(parts[10]).atoms[0].seq if isinstance(SStr.of(parts[10]).atoms[0], SeqLit) else None
                starts = SStr.of(parts[11]).atoms[0].seq if isinstance(SStr.of(parts[11]).atoms[0], SeqLit) else None
                if None not in (cs, ce, cnt, sizes, starts):
                    hy = hy + [j >= 0, j < n, sf(j) <= ef(j)]
                    goal = z3.And(cs == T_start - 1, ce == T_end, cnt == n, sizes.elem(j).e == ef(j) - sf(j) + 1, starts.elem(j).e == sf(j) - T_start)
            else:
                if None not in (cs, ce, cnt):
                    goal = z3.And(cs == T_start - 1, ce == T_end, cnt == 0, _streq(parts[10], ""), _streq(parts[11], ""))
        okkw = st.get("kw", {}).get("order_by") == "start" and st.get("kw", {}).get("featuretype") == "exon"
        U.prove("C18.to_bed12.fields#p%d" % p.index, "chromStart = start-1, chromEnd = end, blockCount = n, sizes[j] = len(b_j), starts[j] = b_j.start - start, children ordered by start",
                hy, z3.And(goal, z3.BoolVal(okkw)), {"j": j}, replay=replay)


def n_is_nonempty(p, n):
    return p.ctx.must(n > 0)


def unit_bounded_two_levels(U):
    """bounded: block children related to the feature at BOTH levels (exons naming the transcript and the locus as
    parents) still count once each in bed12"""
    fails, cases = [], 0
    for strand in ("+", "-"):
        for nex in (1, 2, 3):
            cases += 1
            text = "c\ts\tlocus\t101\t%d\t.\t%s\t.\tID=L1\nc\ts\tmRNA\t101\t%d\t.\t%s\t.\tID=T1;Parent=L1\n" % (100 + 100 * nex, strand, 100 + 100 * nex, strand)
            ex = []
            for i in range(nex):
                a, b = 101 + 100 * i, 100 + 100 * i + (100 if i == nex - 1 else 60)
                ex.append((a, b))
                text += "c\ts\texon\t%d\t%d\t.\t%s\t.\tID=e%d;Parent=T1,L1\n" % (a, b, strand, i)
            try:
                db = gffutils.create_db(text, ":memory:", from_string=True)
                for arg in ("L1", "T1"):
                    fields = db.bed12(arg, block_featuretype="exon", thick_featuretype=None).split("\t")
                    exp_sizes = ",".join(str(b - a + 1) for a, b in ex)
                    if int(fields[9]) != nex or fields[10] != exp_sizes:
                        fails.append({"case": {"feature": arg, "exons": ex, "strand": strand}, "expected": {"blockCount": nex, "blockSizes": exp_sizes}, "observed": {"blockCount": fields[9], "blockSizes": fields[10]}})
            except Exception as exn:
                fails.append({"case": {"exons": ex, "strand": strand}, "expected": "a BED12 line", "observed": repr(exn)})
    U.bounded_result("C18.bounded.two_levels", "bed12 of a feature whose block children are related to it at level 1 and level 2: one block per block feature",
                     "1-3 exons x both strands, exons with Parent=<transcript>,<locus>; bed12 of the locus and of the transcript", cases, fails, distinct=cases)


def unit_bounded_switch(U):
    """Bounded: bed12 / to_bed12 / len / sequence give the same answer whatever constants.always_return_list is set to (and leave
    it as it was)"""
    import gffutils
    from gffutils import constants as K
    import gffutils.convert as CV_
    fails, cases = [], 0
    mk = lambda i, ft, a, b, par=None: F.Feature(seqid="chr1", source="s", featuretype=ft, start=a, end=b, strand="+", attributes=dict({"ID": [i]}, **({"Parent": par} if par else {})))
    feats = [mk("txPlus1", "mRNA", 10, 90), mk("ex1", "exon", 10, 30, ["txPlus1"]), mk("ex2", "exon", 50, 90, ["txPlus1"]), mk("cds1", "CDS", 20, 30, ["txPlus1"]), mk("cds2", "CDS", 50, 70, ["txPlus1"])]
    old = K.always_return_list
    try:
        K.always_return_list = True
        db = gffutils.create_db(feats, ":memory:")
        want = [db.bed12("txPlus1"), db.bed12(db["txPlus1"]), db.bed12("txPlus1", name_field="Name"), CV_.to_bed12(db["txPlus1"], db), len(db["ex1"])]
        for setting in (False, True):
            K.always_return_list = setting
            cases += 1
            try:
                got = [db.bed12("txPlus1"), db.bed12(db["txPlus1"]), db.bed12("txPlus1", name_field="Name"), CV_.to_bed12(db["txPlus1"], db), len(db["ex1"])]
            except Exception as e:
                got = "raised %r" % (e,)
            if got != want or K.always_return_list is not setting:
                fails.append({"case": {"always_return_list": setting}, "expected": want, "observed": got, "switch afterwards": K.always_return_list})
    finally:
        K.always_return_list = old
    U.bounded_result("C18.bounded.switch", "the exports do not depend on constants.always_return_list and leave it alone", "one transcript (2 exons, 2 CDS) x both settings x 5 exports", cases, fails)

def unit_to_bed12_types(U):
    """convert.to_bed12 with SEVERAL block featuretypes (child_type a list / tuple): the blocks are ALL children of those
    types in ascending start order - blockStarts ascending from 0 - however the code obtains them.  children() answers by
    its contract (C02 / C11): the children whose featuretype is (one of) the requested one(s), ordered as requested."""
    for form in ("list", "tuple"):
        it = Interp()

        def run(ctx, form=form):
            T_start, T_end = z3.Int("t.start"), z3.Int("t.end")
            a = object.__new__(Attributes)
            a._d = {"ID": [SStr([Val(z3.String("t.name"), excl=NOTAB)])]}
            T = blank_feature(seqid=SStr([Val(z3.String("t.seqid"), excl=NOTAB)]), start=SInt(T_start), end=SInt(T_end),
                              strand=SStr([Val(z3.String("t.strand"), excl=NOTAB)]), score=SStr([Val(z3.String("t.score"), excl=NOTAB)]), attributes=a)
            kids = []
            for i, ft in enumerate(("exon", "CDS", "exon")):
                s, e = z3.Int("b%d.start" % i), z3.Int("b%d.end" % i)
                ctx.assume(s <= e)
                kids.append(blank_feature(start=SInt(s), end=SInt(e), featuretype=ft))
            ctx.assume(z3.And(kids[0].start.e <= kids[1].start.e, kids[1].start.e <= kids[2].start.e))       # b0, b1, b2 is the start order of the universe
            calls = []

            class DB(object):
                _pyvc_model = True

                def children(self, f, **kw):
                    calls.append(kw)
                    ft = kw.get("featuretype")
                    want = [ft] if isinstance(ft, str) else (list(ft) if ft is not None else None)
                    sel = [k for k in kids if want is None or k.featuretype in want]
                    if kw.get("order_by") not in ("start", ("start",), ["start"]) or kw.get("reverse"):
                        raise Undecided("children() in another order than by start")
                    return iter(list(sel))
            ctx.stash.update(kids=kids, T_start=T_start, calls=calls)
            ct = ["CDS", "exon"] if form == "list" else ("CDS", "exon")
            return it.call(CV.to_bed12, [T, DB()], {"child_type": ct})

        def replay(m, form=form):
            feats = []
            t = F.Feature(seqid="chr1", featuretype="mRNA", start=10, end=60, strand="-", attributes={"ID": ["t1"]})
            t.id = "t1"
            rels = []
            feats.append(t)
            for j, (ft, a, b) in enumerate([("exon", 10, 20), ("CDS", 25, 30), ("exon", 41, 60)]):
                f = F.Feature(seqid="chr1", featuretype=ft, start=a, end=b, strand="-", attributes={"ID": ["e%d" % j]})
                f.id = "e%d" % j
                feats.append(f)
                rels.append(("t1", f.id, 1))
            db = native_db(feats, rels)
            ct = ["CDS", "exon"] if form == "list" else ("CDS", "exon")
            r = CV.to_bed12(db["t1"], db, child_type=ct).rstrip("\n").split("\t")
            exp = ["chr1", "9", "60", "t1", ".", "-", "10", "60", "0,0,0", "3", "11,6,20", "0,15,31"]
            return {"inputs": {"child_type": ct, "children": "exon 10-20, CDS 25-30, exon 41-60"}, "expected": exp, "observed": r, "violates": r != exp}
        for p in U.explore(run, it):
            st = p.ctx.stash
            base = "C18.to_bed12.types[%s]" % form
            if p.kind != "return":
                U.prove(base + ".noraise#p%d" % p.index, "raises nothing (got %r)" % (p.value,), p.pc, z3.BoolVal(False), {}, replay=replay)
                continue
            kids, T_start = st["kids"], st["T_start"]
            r = SStr.of(p.value)
            endsnl = bool(r.atoms) and isinstance(r.atoms[-1], Lit) and r.atoms[-1].s.endswith("\n")
            body = SStr(list(r.atoms[:-1]) + [Lit(r.atoms[-1].s[:-1])]) if endsnl else r
            parts = split_atoms(body, "\t")
            goal = z3.BoolVal(False)
            if len(parts) == 12:
                sizes, starts = split_atoms(SStr.of(parts[10]), ","), split_atoms(SStr.of(parts[11]), ",")

                def iv(x):
                    x = SStr.of(x)
                    c = x.concrete()
                    if c is not None and c.lstrip("-").isdigit():
                        return z3.IntVal(int(c))
                    return x.atoms[0].e if len(x.atoms) == 1 and isinstance(x.atoms[0], IntLit) else None
                if len(sizes) == 3 and len(starts) == 3 and all(iv(x) is not None for x in sizes + starts):
                    goal = z3.And(_streq(parts[9], "3"), *([iv(starts[i]) == kids[i].start.e - T_start for i in range(3)] + [iv(sizes[i]) == kids[i].end.e - kids[i].start.e + 1 for i in range(3)]))
            U.prove(base + ".blocks#p%d" % p.index, "blockCount = number of children of the requested types; blockStarts / blockSizes list them in ascending start order (starts relative to the feature's start)",
                    p.pc, goal, {"b%d.%s" % (i, w): z3.Int("b%d.%s" % (i, w)) for i in range(3) for w in ("start", "end")}, replay=replay)


from pyvc.harness import dep_unit as _dep_unit

UNITS = [("dep.getitem", _dep_unit("C04", "unit_getitem", "C04", "C18.dep", "db[<id or Feature>] answers with the STORED record of that id (the C04 obligations bed12 relies on when it is given a Feature), discharged in this check as well")), ("to_bed12_types", unit_to_bed12_types), ("bounded.switch", unit_bounded_switch), ("len_sequence", unit_len_sequence), ("sequence.filename", unit_sequence_filename), ("bed12", unit_bed12), ("to_bed12", unit_to_bed12), ("bounded.two_levels", unit_bounded_two_levels)]
try:
    from standins import C18 as _S
    UNITS = UNITS + list(_S.UNITS)
except ImportError:
    pass


def replay_file(doc):
    return {"error": "re-run ./check C18 to regenerate and replay this obligation", "violates": None, "stored": doc.get("inputs")}
