"""C11 - feature-type / strand filters, ordering and counts agree with a full scan."""
import itertools
import z3

import gffutils
import gffutils.bins as B
import gffutils.helpers as H
import gffutils.interface as I
from gffutils import constants

from pyvc.core import SInt, SStr, Val, Undecided
from pyvc.interp import Interp
from pyvc import ghostdb, sqlmodel as Q
from pyvc.harness import model_of, ev
from contracts.common import bins_contract
from contracts import spec_query as SQ
from contracts.qharness import (Const, Str, Int, Tup, all_vars, sym_kwargs, nat_kwargs, constraints, blank_db, Renamer,
                                native_db, feature_from_model)
from props.C06 import _native_selected, _eqc, ft_shapes, strand_shapes, _spec_ft

LEVEL = "proof"
EXPLANATION = ("all_features / features_of_type are executed symbolically for every shape of featuretype (none / string / list / "
               "tuple), strand, order_by (none, each valid key as a string and as a tuple, multi-key, 'length', 'file_order', an "
               "invalid key) and reverse, up to cursor.execute; the WHERE clause is proved equal to {row | type-match and "
               "strand-match}, placeholders/arguments in lock-step, the ORDER BY terms are proved order-equivalent to the requested "
               "keys (length: end-start+1; file_order: rowid) ascending, or descending with reverse for a single key; the count / "
               "featuretypes / seqids statements are proved to be the cardinality / distinct projections of the same predicate.")
TRUSTED = ["T3 SQL model pyvc/sqlmodel.py, cross-validated against real sqlite3 (C06.assumption.sqlmodel)", "contracts/spec_query.py"]
ASSUMPTIONS = ["A-S1 sqlite3 executes the modelled SQL subset as modelled", "A-S3 a scan without ORDER BY returns rows in rowid order = input order (assumed, not decided)",
               "ORDER BY on text columns is BINARY collation = code-point order (assumed)"]
PRECONDITIONS = ["featuretype: non-empty string or non-empty list/tuple of strings; strand: non-empty string"]
FUNCTIONS = ["gffutils.interface:FeatureDB._update", "gffutils.helpers:make_query", "gffutils.interface:FeatureDB.all_features", "gffutils.interface:FeatureDB.features_of_type",
             "gffutils.interface:FeatureDB.count_features_of_type", "gffutils.interface:FeatureDB.featuretypes", "gffutils.interface:FeatureDB.seqids"]

VALID = list(constants._gffkeys_extra) + ["file_order", "length"]
INTKEYS = {"start", "end", "length", "file_order"}


def order_shapes(thorough):
    yield "none", None
    for k in VALID:
        if not thorough and k in ("source", "score", "frame", "extra", "attributes"):
            continue
        yield "str:%s" % k, k
        yield "tuple:%s" % k, (k,)
    yield "list:seqid,start", ["seqid", "start"]
    yield "tuple:featuretype,length,file_order", ("featuretype", "length", "file_order")
    yield "tuple:bogus", ("bogus",)
    yield "tuple:seqid,bogus", ("seqid", "bogus")


def _interp():
    it = Interp()
    it.contracts[B.bins] = bins_contract
    return it


def _key_value(row, key):
    """specified sort key of a row as a (term, isnull) pair"""
    if key == "length":
        return row["end"].term - row["start"].term + 1, z3.Or(row["start"].null, row["end"].null)
    if key == "file_order":
        return row["rowid"].term, z3.BoolVal(False)
    return row[key].term, row[key].null if not isinstance(row[key].null, bool) else z3.BoolVal(row[key].null)


def _native_order(entry, kw, keys, reverse):
    """replay: three rows with distinct keys inserted in scrambled order; check the real order"""
    import gffutils.feature as F
    feats = []
    spec = [(30, 45, "b", "-", "y"), (10, 90, "a", "+", "x"), (20, 22, "c", ".", "z"), (5, 7, "a", "-", "y")]
    for i, (s, e, sq, st, ft) in enumerate(spec):
        f = F.Feature(seqid=sq, source="s%d" % (3 - i), featuretype=ft, start=s, end=e, score=str(i), strand=st, frame=str(i % 3), attributes={"ID": ["r%d" % i]})
        f.id = "r%d" % i
        feats.append(f)
    db = native_db(feats)
    nkw = dict(kw)
    if entry == "features_of_type":
        res = list(db.features_of_type(["x", "y", "z"], **nkw))
    else:
        res = list(db.all_features(**nkw))

    def keyf(f):
        out = []
        for k in keys:
            if k == "length":
                out.append(f.end - f.start + 1)
            elif k == "file_order":
                out.append(int(f.id[1:]))
            elif k in ("attributes", "extra"):
                out.append(H._jsonify(getattr(f, k)))
            else:
                out.append(getattr(f, k))
        return tuple(out)
    got = [keyf(f) for f in res]
    exp = sorted(got, reverse=bool(reverse and len(keys) == 1))
    return got, exp


def unit_order(U, prefix="C11", only=None):
    """ORDER BY terms, direction, invalid keys - for all_features and features_of_type"""
    for entry in ("all_features", "features_of_type"):
        for ((on, ob), rev), prior in itertools.product(itertools.product(order_shapes(U.thorough), (False, True)), (False, True)):
            # prior: the same process has already answered a query with the same order_by and the OTHER direction (through
            # another FeatureDB): the clause is about this call's arguments, whatever was asked before
            if only is not None and on not in only:
                continue
            if prior and (ob is None or (not U.thorough and on not in ("str:start", "tuple:start", "str:length", "list:seqid,start"))):
                continue
            it = _interp()
            a, b = Q.sym_row("features", "a")[0], Q.sym_row("features", "b")[0]
            kw = {"order_by": ob, "reverse": rev}
            keys = None if ob is None else ([ob] if isinstance(ob, str) else list(ob))

            def run(ctx, entry=entry, kw=kw, prior=prior):
                if prior:
                    try:
                        list(it.call(I.FeatureDB.children, [blank_db(), "x"], {"order_by": kw["order_by"], "reverse": not kw["reverse"]}))
                    except ValueError:
                        pass
                    ctx.stash["n_prior"] = len(ghostdb.executes(ctx))
                db = blank_db()
                if entry == "features_of_type":
                    list(it.call(I.FeatureDB.features_of_type, [db, "exon"], dict(kw)))
                else:
                    list(it.call(I.FeatureDB.all_features, [db], dict(kw)))
            base = prefix + ".order.%s[%s,reverse=%s%s]" % (entry, on, rev, ",after-opposite-query" if prior else "")
            for p in U.explore(run, it):
                invalid = keys is not None and any(k not in VALID for k in keys)

                def replay(m, entry=entry, kw=kw, keys=keys, rev=rev, invalid=invalid, prior=prior):
                    try:
                        if prior:
                            import gffutils.feature as F_
                            d0 = native_db([F_.Feature(seqid="c", featuretype="t", start=1, end=5, attributes={"ID": ["x"]})])
                            try:
                                list(d0.children("x", order_by=kw["order_by"], reverse=not kw["reverse"]))
                            except ValueError:
                                pass
                        got, exp = _native_order(entry, kw, keys or [], rev)
                    except Exception as e:
                        return {"inputs": kw, "call": entry, "expected": "ValueError" if invalid else "rows sorted by %r" % (keys,),
                                "observed": "raised %r" % (e,), "violates": not (invalid and isinstance(e, ValueError))}
                    if invalid:
                        return {"inputs": kw, "expected": "ValueError", "observed": "no exception", "violates": True}
                    if keys is None:
                        return {"inputs": kw, "observed": got, "violates": False}
                    return {"inputs": kw, "call": entry, "expected": exp, "observed": got, "violates": got != exp}
                if invalid:
                    U.prove(base + ".invalid#p%d" % p.index, "a key outside the valid order-by values ==> raises ValueError", p.pc,
                            z3.BoolVal(p.kind == "raise" and isinstance(p.value, ValueError)), {}, replay=replay)
                    continue
                if p.kind != "return":
                    U.prove(base + ".noraise#p%d" % p.index, "valid order_by raises nothing (got %r)" % (p.value,), p.pc, z3.BoolVal(False), {}, replay=replay)
                    continue
                ex = ghostdb.executes(p.ctx)[p.ctx.stash.get("n_prior", 0):]
                if len(ex) != 1:
                    raise Undecided(base + ": expected one statement")
                st = Q.parse(ex[0][1])
                si = Q.select_info(st.node)
                if keys is None:
                    U.prove(base + ".none#p%d" % p.index, "order_by None ==> no ORDER BY clause (rowid scan, A-S3)", [], z3.BoolVal(not si.order), {}, replay=replay)
                    continue
                ok_len = len(si.order) == len(keys)
                U.prove(base + ".nterms#p%d" % p.index, "one ORDER BY term per requested key, in order", [], z3.BoolVal(ok_len), {}, replay=replay)
                if not ok_len:
                    continue
                for i, (k, term) in enumerate(zip(keys, si.order)):
                    try:
                        ea = Q.RowEnv({"features": a}, [], st.holes)
                        eb = Q.RowEnv({"features": b}, [], st.holes)
                        va, vb = Q.eval_expr(term, ea), Q.eval_expr(term, eb)
                    except (Q.SQLSyntax, Q.SQLArgs) as e:
                        U.prove(base + ".term%d#p%d" % (i, p.index), "ORDER BY term %d is valid SQL over the selected columns (%s)" % (i, e), [], z3.BoolVal(False), {}, replay=replay)
                        continue
                    if k in INTKEYS:
                        ka, na = _key_value(a, k)
                        kb, nb = _key_value(b, k)
                        hy = [z3.Not(na), z3.Not(nb)]
                        goal = z3.And((Q._term(va) < Q._term(vb)) == (ka < kb), (Q._term(va) == Q._term(vb)) == (ka == kb),
                                      Q._zb(va.null) == na if not isinstance(va.null, bool) else z3.BoolVal(True))
                        U.prove(base + ".term%d#p%d" % (i, p.index), "ORDER BY term %d is order-equivalent to the key %r (length = end-start+1, file_order = rowid)" % (i, k),
                                hy, goal, {}, replay=replay)
                    else:
                        txt = Q.expr_text(term)
                        U.prove(base + ".term%d#p%d" % (i, p.index), "ORDER BY term %d is the column %r" % (i, k), [], z3.BoolVal(txt in (k, "features." + k)), {}, replay=replay)
                want = "DESC" if (rev and len(keys) == 1) else ("ASC" if not rev else None)
                if want is not None:
                    got = si.direction or "ASC"
                    U.prove(base + ".direction#p%d" % p.index, "ascending; descending with reverse for a single key", [], z3.BoolVal(got == want), {}, replay=replay)


def unit_where(U):
    """WHERE == type-match and strand-match, lock-step, projected columns"""
    for entry in ("all_features", "features_of_type"):
        for (fn, ft), (sn, strand), ob in itertools.product(ft_shapes(), strand_shapes(), (None, ("seqid", "start"))):
            if entry == "features_of_type" and ft is None:
                continue
            it = _interp()
            frow, rrow, rvars = SQ.sym_feature_and_relation()
            kw = {"featuretype": ft, "strand": strand, "order_by": ob}
            vars_ = dict(rvars)
            vars_.update(all_vars(kw))
            cons = constraints(kw)

            def run(ctx, entry=entry, kw=kw, cons=cons):
                for c in cons:
                    ctx.assume(c)
                db = blank_db()
                skw = sym_kwargs(kw)
                if entry == "features_of_type":
                    ftv = skw.pop("featuretype")
                    list(it.call(I.FeatureDB.features_of_type, [db, ftv], skw))
                else:
                    list(it.call(I.FeatureDB.all_features, [db], skw))
            base = "C11.where.%s[ft=%s,strand=%s,order=%s]" % (entry, fn, sn, "2keys" if ob else "none")
            for p in U.explore(run, it):
                def replay(m, entry=entry, kw=kw):
                    try:
                        f, nkw, ids = _native_selected(entry, {k: v for k, v in kw.items() if k != "order_by"}, m)
                    except Exception as e:
                        return {"inputs": m, "observed": "raised %r" % (e,), "violates": True}
                    sm = model_of([_eqc(v, m[k]) for k, v in vars_.items() if k in m])
                    exp = bool(ev(sm, spec)) if sm is not None else None
                    obs = ids.count(f.id)
                    return {"inputs": {"row": {k: v for k, v in m.items() if k.startswith("f.")}, "call": "%s(**%r)" % (entry, nkw)},
                            "expected": "row returned %s" % ("once" if exp else "never"), "observed": "row returned %d times" % obs,
                            "violates": exp is not None and obs != (1 if exp else 0)}
                if p.kind != "return":
                    spec = z3.BoolVal(True)
                    U.prove(base + ".noraise#p%d" % p.index, "raises nothing (got %r)" % (p.value,), p.pc, z3.BoolVal(False), vars_, replay=replay)
                    continue
                ex = ghostdb.executes(p.ctx)
                spec = z3.And(SQ.type_ok(frow, _spec_ft(ft)), SQ.strand_ok(frow, strand.z if strand is not None else None))
                try:
                    sel = SQ.Selected(ex[0][1], ex[0][2], frow, rrow)
                except (Q.SQLArgs, Q.SQLSyntax) as e:
                    U.prove(base + ".lockstep#p%d" % p.index, "placeholders and arguments in lock-step / valid SQL (%s)" % e, p.pc, z3.BoolVal(False), vars_, replay=replay)
                    continue
                U.prove(base + ".where#p%d" % p.index, "selected(row) <==> type-match(featuretype) and strand-match(strand); no join, so each row at most once",
                        list(p.pc), z3.And(sel.cond == spec, z3.BoolVal(not sel.joined)), vars_, replay=replay)
                U.prove(base + ".columns#p%d" % p.index, "projected columns are the Feature columns + rowid as file_order", [], z3.BoolVal(sel.columns == SQ.SELECT_COLUMNS), {})


def unit_counts(U):
    """count_features_of_type / featuretypes / seqids"""
    it = _interp()
    frow, rrow, rvars = SQ.sym_feature_and_relation()
    ft = Str("ft")
    for shape in ("str", "none"):
        def run(ctx, shape=shape):
            for c in ft.constraints():
                ctx.assume(c)
            db = blank_db()
            it.call(I.FeatureDB.count_features_of_type, [db] + ([ft.sym()] if shape == "str" else []), {})
            return None

        def replay(m, shape=shape):
            ren = Renamer()
            f = feature_from_model(m, ren)
            db = native_db([f])
            n = db.count_features_of_type(ren(m["ft"])) if shape == "str" else db.count_features_of_type()
            exp = 1 if shape == "none" or f.featuretype == ren(m["ft"]) else 0
            it_n = len(list(db.features_of_type(ren(m["ft"])))) if shape == "str" else len(list(db.all_features()))
            return {"inputs": m, "expected": "count == number iterated == %d" % exp, "observed": "count=%r iterated=%d" % (n, it_n), "violates": n != exp or it_n != exp}
        for p in U.explore(run, it):
            ex = ghostdb.executes(p.ctx)
            if p.kind != "return" or not ex:
                U.prove("C11.count[%s].noraise#p%d" % (shape, p.index), "count_features_of_type returns after asking the database (got %s %r)" % (p.kind, p.value), p.pc, z3.BoolVal(False), dict(rvars, ft=ft.z), replay=replay)
                continue
            st = Q.parse(ex[0][1])
            si = Q.select_info(st.node)
            cols = Q.select_cols(si)
            cond, env = Q.where_predicate(si.where, {"features": frow}, ex[0][2], st.holes)
            spec = SQ.type_ok(frow, ft.z if shape == "str" else None)
            vars_ = dict(rvars, ft=ft.z)
            U.prove("C11.count[%s].pred#p%d" % (shape, p.index), "count_features_of_type counts exactly the rows features_of_type iterates (same predicate), no join, count() aggregate",
                    list(p.pc), z3.And(Q._zb(cond) == spec, z3.BoolVal(cols == ["count()"] and not si.joins and si.source[1] == "features" and env.pos == len(env.args))),
                    vars_, replay=replay)
    # the count is read from the table on EVERY call: after a delete (by id string, by Feature) the same call answers anew
    for how in ("id", "feature"):
        def run3(ctx, how=how):
            for c in ft.constraints():
                ctx.assume(c)
            db = blank_db()
            from contracts.common import blank_feature
            x = SStr([Val(z3.String("x"), nonempty=True)])
            n1 = it.call(I.FeatureDB.count_features_of_type, [db, ft.sym()], {})
            it.call(I.FeatureDB.delete, [db, x if how == "id" else blank_feature(id=x, featuretype=ft.sym())], {"make_backup": False})
            n2 = it.call(I.FeatureDB.count_features_of_type, [db, ft.sym()], {})
            return n1, n2

        def replay3(m, how=how):
            import gffutils.feature as F
            fs = []
            for i in range(3):
                f = F.Feature(seqid="c", featuretype="exon", start=10 * i + 1, end=10 * i + 5, attributes={"ID": ["e%d" % i]})
                f.id = "e%d" % i
                fs.append(f)
            db = native_db(fs)
            a = db.count_features_of_type("exon")
            db.delete("e1" if how == "id" else db["e1"], make_backup=False)
            b = db.count_features_of_type("exon")
            it_n = len(list(db.features_of_type("exon")))
            return {"inputs": "count('exon'); delete(%s); count('exon') on one FeatureDB object" % ("'e1'" if how == "id" else "db['e1']"), "expected": [3, 2, 2], "observed": [a, b, it_n], "violates": [a, b, it_n] != [3, 2, 2]}
        for p in U.explore(run3, it):
            ok = p.kind == "return"
            if ok:
                sel = [e for e in ghostdb.executes(p.ctx) if " ".join(str(e[1]).split()).upper().startswith("SELECT")]
                ok = len(sel) == 2 and " ".join(str(sel[0][1]).split()) == " ".join(str(sel[1][1]).split())
            U.prove("C11.count.after_delete[%s]#p%d" % (how, p.index), "count_features_of_type asks the table again after a delete() on the same object (one count query per call; nothing remembered across a change)",
                    [], z3.BoolVal(bool(ok)), {}, replay=replay3)
    # every iteration hands out NEW Feature objects built from the rows: what a caller does to a Feature it was given
    # (without writing it back) cannot change what the next query returns
    for entry in ("all_features", "features_of_type"):
        def run5(ctx, entry=entry):
            cols = Q.FEATURE_COLS + ["file_order"]
            vals = ["g1", "chr1", "src", "gene", 10, 20, ".", "+", ".", '{"ID": ["g1"], "Note": ["n"]}', "[]", 585, 1]
            row = ghostdb.GhostRow(cols, vals)
            db = blank_db(ghostdb.GhostConn(result_for=lambda cur, kind, q, a: [row]))
            args = ["gene"] if entry == "features_of_type" else []
            out1 = list(it.call(getattr(I.FeatureDB, entry), [db] + args, {}))
            out2 = list(it.call(getattr(I.FeatureDB, entry), [db] + args, {}))
            return out1, out2

        def replay5(m, entry=entry):
            import gffutils.feature as F
            fs = []
            for i in range(3):
                f = F.Feature(seqid="c", featuretype="gene", strand="+", start=10 * i + 1, end=10 * i + 5, attributes={"ID": ["g%d" % i]})
                f.id = "g%d" % i
                fs.append(f)
            db = native_db(fs)
            q = (lambda: db.features_of_type("gene", order_by="start")) if entry == "features_of_type" else (lambda: db.all_features(order_by="start"))
            want = [(f.id, f.featuretype, f.strand, f.start) for f in q()]
            for f in q():
                f.featuretype, f.strand, f.start = "pseudogene", "-", 1000 - f.start
                f.attributes["Note"] = ["edited by the caller, never written back"]
            got = [(f.id, f.featuretype, f.strand, f.start) for f in q()]
            return {"inputs": "iterate %s(); edit the Features handed out (no update()); iterate again on the same FeatureDB" % entry, "expected": want, "observed": got, "violates": got != want}
        for p in U.explore(run5, it):
            ok = p.kind == "return"
            if ok:
                out1, out2 = p.value
                ok = (len(out1) == 1 and len(out2) == 1 and out1[0] is not out2[0] and out1[0].attributes is not out2[0].attributes
                      and getattr(out1[0].attributes, "_d", 1) is not getattr(out2[0].attributes, "_d", 2) and len(ghostdb.executes(p.ctx)) == 2)
            U.prove("C11.fresh_objects[%s]#p%d" % (entry, p.index), "two iterations query the table twice and hand out distinct Feature objects (no Feature or attribute mapping shared between them)",
                    [], z3.BoolVal(bool(ok)), {}, replay=replay5)
    # two iterations alive at the same time do not disturb each other: each runs on its own cursor (sqlite3: a cursor that
    # executes a statement drops the rows still pending from its previous one)
    for entry in ("all_features", "features_of_type"):
        def run6(ctx, entry=entry):
            cols = Q.FEATURE_COLS + ["file_order"]
            rows_ = [ghostdb.GhostRow(cols, ["g%d" % i, "chr1", "src", "gene", 10 * i, 10 * i + 5, ".", "+", ".", '{"ID": ["g%d"]}' % i, "[]", 585, i]) for i in (1, 2)]
            conn = ghostdb.GhostConn(result_for=lambda cur, kind, q, a: list(rows_))
            db = blank_db(conn)
            args = ["gene"] if entry == "features_of_type" else []
            g1 = it.call(getattr(I.FeatureDB, entry), [db] + args, {})
            first = next(g1)
            inner = list(it.call(getattr(I.FeatureDB, entry), [db] + args, {}))
            rest = list(g1)
            return [first] + rest, inner, list(getattr(conn, "cursors_used", []))

        def replay6(m, entry=entry):
            import gffutils.feature as F
            fs = []
            for i in range(4):
                f = F.Feature(seqid="c", featuretype="gene", strand="+", start=10 * i + 1, end=10 * i + 5, attributes={"ID": ["g%d" % i]})
                f.id = "g%d" % i
                fs.append(f)
            db = native_db(fs)
            q = (lambda: db.features_of_type("gene", strand="+")) if entry == "features_of_type" else (lambda: db.all_features(strand="+"))
            pairs = [(a.id, b.id) for a in q() for b in q()]
            exp = [("g%d" % i, "g%d" % j) for i in range(4) for j in range(4)]
            z = [(a.id, b.id) for a, b in zip(q(), q())]
            return {"inputs": "%s(strand='+') iterated inside itself (all pairs) and zipped with itself, 4 genes" % entry, "expected": [exp, [("g%d" % i, "g%d" % i) for i in range(4)]], "observed": [pairs, z],
                    "violates": pairs != exp or z != [("g%d" % i, "g%d" % i) for i in range(4)]}
        for p in U.explore(run6, it):
            ok = p.kind == "return"
            if ok:
                outer, inner, curs = p.value
                ok = len(outer) == 2 and len(inner) == 2 and len(curs) == 2 and curs[0] is not curs[1]
            U.prove("C11.interleaved[%s]#p%d" % (entry, p.index), "an iteration started while another is under way runs on its own cursor; both return every row", [], z3.BoolVal(bool(ok)), {}, replay=replay6)
    for meth, col in (("featuretypes", "featuretype"), ("seqids", "seqid")):
        def run2(ctx, meth=meth):
            db = blank_db()
            list(it.call(getattr(I.FeatureDB, meth), [db], {}))

        def replay2(m, meth=meth, col=col):
            import gffutils.feature as F
            fs = []
            for i, (sq, t) in enumerate([("a", "x"), ("b", "x"), ("a", "y"), ("a", "x"), ("A", "X"), ("chr1", "Exon"), ("Chr1", "exon"), ("\u00e9", "\u00c9"), ("\u00c9", "\u00e9"), ("10", "1"), ("9", "01")]):
                f = F.Feature(seqid=sq, featuretype=t, start=1, end=2, attributes={"ID": ["k%d" % i]})
                f.id = "k%d" % i
                fs.append(f)
            db = native_db(fs)
            got = sorted(getattr(db, meth)())
            exp = sorted({getattr(f, col) for f in fs})
            return {"expected": exp, "observed": got, "violates": got != exp}
        for p in U.explore(run2, it):
            ex = ghostdb.executes(p.ctx)
            st = Q.parse(ex[0][1])
            si = Q.select_info(st.node)
            cols = Q.select_cols(si)
            U.prove("C11.%s.distinct#p%d" % (meth, p.index), "%s() lists exactly the distinct values of column %s present" % (meth, col), [],
                    z3.BoolVal(si.distinct and cols == [col] and si.where is None and not si.joins and si.source[1] == "features"), {}, replay=replay2)


def unit_bounded(U):
    """Bounded stand-in: filters, ordering and counts on random databases vs a full scan."""
    from contracts.sqlvalidate import random_db
    import random
    rng = U.rng
    n = 3000 if U.thorough else 400
    fails, cases, distinct = [], 0, set()
    db = feats = None
    for i in range(n):
        if i % 10 == 0:
            feats, rels = random_db(rng, n=7)
            feats = [f for f in feats if f.start is not None and f.end is not None]
            if not feats:
                continue
            db = native_db(feats)
        ft = rng.choice([None, "x", ["x", "y"], ("z",), {"x", "z"}])
        strand = rng.choice([None, "+", "-", "."])
        keys = rng.choice([None, "start", ("start",), "length", ("length",), "file_order", ("file_order",), ("seqid", "start"), ("featuretype", "length", "file_order"), "end", ("strand", "end", "file_order")])
        rev = rng.random() < 0.4
        kl = None if keys is None else ([keys] if isinstance(keys, str) else list(keys))
        if kl is not None and len(kl) > 1:
            rev = False if rng.random() < 0.7 else rev
        entry = rng.choice(["all_features", "features_of_type"])
        if entry == "features_of_type" and ft is None:
            ft = "y"

        def tok(f):
            return ft is None or (f.featuretype == ft if isinstance(ft, str) else f.featuretype in ft)
        exp = [f for f in feats if tok(f) and (strand is None or f.strand == strand)]

        def keyf(f):
            return tuple((f.end - f.start + 1) if k == "length" else (feats.index(f) if k == "file_order" else getattr(f, k)) for k in kl)
        try:
            if entry == "all_features":
                res = list(db.all_features(featuretype=ft, strand=strand, order_by=keys, reverse=rev))
            else:
                res = list(db.features_of_type(ft, strand=strand, order_by=keys, reverse=rev))
        except Exception as e:
            fails.append({"case": {"entry": entry, "featuretype": repr(ft), "strand": strand, "order_by": repr(keys), "reverse": rev}, "expected": "no exception", "observed": repr(e)})
            continue
        cases += 1
        distinct.add((entry, repr(ft), strand, repr(keys), rev))
        bad = None
        if sorted(r.id for r in res) != sorted(f.id for f in exp):
            bad = "wrong set"
        elif kl is None:
            if [r.id for r in res] != [f.id for f in exp]:
                bad = "not in input order"
        else:
            byid = {f.id: f for f in feats}
            ks = [keyf(byid[r.id]) for r in res]
            if len(kl) == 1 or not rev:
                if ks != sorted(ks, reverse=(rev and len(kl) == 1)):
                    bad = "not sorted"
        if isinstance(ft, str) or ft is None:
            c = db.count_features_of_type(ft) if ft is not None else db.count_features_of_type()
            if strand is None and c != len(exp):
                bad = "count %r != iterated %d" % (c, len(exp))
        if sorted(db.featuretypes()) != sorted({f.featuretype for f in feats}) or sorted(db.seqids()) != sorted({f.seqid for f in feats}):
            bad = "featuretypes()/seqids() wrong"
        if bad:
            fails.append({"case": {"entry": entry, "featuretype": repr(ft), "strand": strand, "order_by": repr(keys), "reverse": rev, "rows": [str(f) for f in feats]},
                          "expected": [f.id for f in exp], "observed": "%s: %r" % (bad, [r.id for r in res])})
    U.bounded_result("C11.bounded.scan", "filters/ordering/counts of all_features, features_of_type, count_features_of_type, featuretypes, seqids == full scan",
                     "%d random calls on 7-feature databases" % n, cases, fails, distinct=len(distinct))


def unit_schema(U):
    """standing assumption of the SQL model, checked on the real SCHEMA: plain text/int columns, exact text comparison"""
    from contracts import importer as IM_
    IM_.prove_plain_schema(U, "C11", ['features'])


def unit_bounded_after_imports(U):
    """Bounded: queries do not depend on what ELSE happened in the process: after imports that went through every merge
    strategy (collisions included) in other databases, every valid order_by column - as a string and inside a tuple - still
    sorts a database, and counts / featuretypes agree with a full scan"""
    import gffutils.feature as F_
    fails, cases = [], 0
    mk = lambda i, ft, a, **att: F_.Feature(seqid="c", source="s", featuretype=ft, start=a, end=a + 5, strand="+", attributes=dict({"ID": [i]}, **{k: [v] for k, v in att.items()}))
    db = gffutils.create_db([mk("a", "gene", 30), mk("b", "exon", 10), mk("c", "exon", 20)], ":memory:")
    for strat in ("merge", "create_unique", "replace", "warning"):
        other = gffutils.create_db([mk("k", "exon", 1, Note="n1"), mk("k", "exon", 1, Note="n2"), mk("k", "exon", 3)], ":memory:", merge_strategy=strat)
        other.update([mk("k", "exon", 1, Note="n3")], merge_strategy=strat, make_backup=False)
        for col in ("seqid", "source", "featuretype", "start", "end", "score", "strand", "frame", "attributes", "extra", "file_order", "length"):
            for ob in (col, (col,), ("strand", col)):
                cases += 1
                try:
                    got = [f.id for f in db.all_features(order_by=ob)]
                    if sorted(got) != ["a", "b", "c"] or (col == "start" and not isinstance(ob, tuple) and got != ["b", "c", "a"]):
                        fails.append({"case": {"after": "imports with merge_strategy=%r elsewhere" % strat, "order_by": ob}, "expected": "the three features sorted", "observed": got})
                except Exception as e:
                    fails.append({"case": {"after": "imports with merge_strategy=%r elsewhere" % strat, "order_by": ob}, "expected": "the three features sorted", "observed": repr(e)})
        cases += 1
        if db.count_features_of_type("exon") != 2 or sorted(db.featuretypes()) != ["exon", "gene"]:
            fails.append({"case": {"after": strat}, "expected": [2, ["exon", "gene"]], "observed": [db.count_features_of_type("exon"), sorted(db.featuretypes())]})
    U.bounded_result("C11.bounded.after_imports", "ordering / counting a database gives the same answers after other imports (all merge strategies, with collisions) ran in the process",
                     "4 strategies x 12 order_by keys x {string, 1-tuple, 2-tuple}", cases, fails)

def unit_bounded_odd_featuretypes(U):
    """Bounded: a featuretype is compared as a whole string whatever it contains (comma, blank, quote, percent, a number):
    features_of_type / all_features(featuretype=...) / count_features_of_type / featuretypes() against a full scan"""
    import gffutils.feature as F_
    fails, cases = [], 0
    types = ["match,part", "match", "part", "region, unplaced", "5UTR", "007", "a'b", "50%", "exon;x"]
    feats = []
    for i, t in enumerate(types * 2):
        f = F_.Feature(seqid="c", source="s", featuretype=t, start=10 * i + 1, end=10 * i + 5, strand="+", attributes={"ID": ["f%d" % i]})
        f.id = "f%d" % i
        feats.append(f)
    db = native_db(feats)
    for t in types + ["match,part,007", "absent"]:
        want = sorted(f.id for f in feats if f.featuretype == t)
        for name, fn in (("features_of_type", lambda: db.features_of_type(t)), ("all_features(featuretype)", lambda: db.all_features(featuretype=t)),
                         ("features_of_type(order_by)", lambda: db.features_of_type(t, order_by="start", reverse=True))):
            cases += 1
            got = sorted(f.id for f in fn())
            if got != want:
                fails.append({"case": {"call": name, "featuretype": t}, "expected": want, "observed": got})
        cases += 1
        if db.count_features_of_type(t) != len(want):
            fails.append({"case": {"call": "count_features_of_type", "featuretype": t}, "expected": len(want), "observed": db.count_features_of_type(t)})
    cases += 1
    pair = sorted(f.id for f in db.features_of_type(["match", "part"]))
    if pair != sorted(f.id for f in feats if f.featuretype in ("match", "part")):
        fails.append({"case": {"call": "features_of_type(['match','part'])"}, "expected": "the features of the two types", "observed": pair})
    if sorted(db.featuretypes()) != sorted(set(types)):
        fails.append({"case": {"call": "featuretypes()"}, "expected": sorted(set(types)), "observed": sorted(db.featuretypes())})
    U.bounded_result("C11.bounded.odd_featuretypes", "featuretype filters and counts on types containing separators, quotes, digits == full scan", "9 odd featuretypes x 4 entry points", cases, fails)

def unit_bounded_lengths(U):
    """Bounded: order_by 'length' is the order of the stored end - start, negative differences included (a line whose start
    exceeds its end is imported as written) - as a string, in a tuple, alone and with further columns, both directions"""
    import gffutils.feature as F_
    fails, cases = [], 0
    coords = [(10, 20), (50, 40), (7, 7), (100, 30), (5, 80), (90, 91), (300, 100), (60, 65)]
    feats = []
    for i, (a, b) in enumerate(coords):
        f = F_.Feature(seqid="c", source="s", featuretype=("exon", "gene")[i % 2], start=a, end=b, strand="+", attributes={"ID": ["f%d" % i]})
        f.id = "f%d" % i
        feats.append(f)
    db = native_db(feats)
    ln = {f.id: f.end - f.start for f in feats}
    for ob in ("length", ("length",), ["length"], ("length", "start"), ("featuretype", "length")):
        for rev in (False, True):
            if rev and ob not in ("length", ("length",), ["length"]):
                continue                     # the statement promises 'descending with reverse' for a single column
            for name, fn in (("all_features", lambda: db.all_features(order_by=ob, reverse=rev)), ("features_of_type", lambda: db.features_of_type("exon", order_by=ob, reverse=rev))):
                cases += 1
                got = [f.id for f in fn()]
                key = (lambda i: (ln[i],)) if ob in ("length", ("length",), ["length"]) else ((lambda i: (ln[i], db[i].start)) if ob == ("length", "start") else (lambda i: (db[i].featuretype, ln[i])))
                keys = [key(i) for i in got]
                want_ids = sorted(f.id for f in feats if name == "all_features" or f.featuretype == "exon")
                ok = sorted(got) == want_ids and all((keys[k] >= keys[k + 1]) if rev else (keys[k] <= keys[k + 1]) for k in range(len(keys) - 1))
                if not ok:
                    fails.append({"case": {"call": name, "order_by": repr(ob), "reverse": rev}, "expected": "ids %r sorted by end - start (%s)" % (want_ids, "descending" if rev else "ascending"), "observed": [(i, ln[i]) for i in got]})
    U.bounded_result("C11.bounded.lengths", "order_by 'length' sorts by the stored end - start, reversed coordinates included", "8 features (3 with start > end) x 5 order_by forms x reverse x 2 entry points", cases, fails)

def unit_update_keeps_position(U):
    """'with no order_by a full iteration is in input order' also after a stored feature has been written back: the
    write-back of FeatureDB._update (used by add_relation's parent_func / child_func and by merge_all) is ONE statement
    'UPDATE features SET <the twelve columns> WHERE id = ?' with the feature's astuple() + [id] - an UPDATE keeps the row
    (its rowid = its place in the scan) where INSERT OR REPLACE / DELETE + INSERT would move it to the end"""
    import gffutils.feature as F
    from contracts import importer as IM
    it = Interp()
    it.contracts[B.bins] = bins_contract
    IM.install_json(it)

    def run(ctx):
        f, fv = IM.sym_feature("f", {"ID": [IM.sval("f.ID")[0]]})
        conn = ghostdb.GhostConn()
        db = blank_db(conn)
        f.id = IM.sval("f.id")[0]
        tup = [SStr([Val(z3.String("col.%s" % c))]) for c in constants._keys]       # astuple() by its contract (C01.columns): one value per column, in column order
        it.contracts[F.Feature.astuple] = lambda interp, a, k: tuple(tup) if a and a[0] is f else (_ for _ in ()).throw(Undecided("astuple of another object"))
        ctx.stash.update(f=f, conn=conn, tup=tup)
        it.call(I.FeatureDB._update, [db, f, conn.cursor()], {})

    def replay(m):
        mk = lambda i, s: F.Feature(seqid="c", featuretype="t", start=s, end=s + 5, attributes={"ID": [i]})
        db = gffutils.create_db([mk("a", 50), mk("b", 10), mk("c", 30)], ":memory:")
        before = [x.id for x in db.all_features()]
        db.add_relation("a", "b", 1, parent_func=lambda p, c: p, child_func=I.assign_child)
        after = [x.id for x in db.all_features()]
        after_fo = [x.id for x in db.all_features(order_by="file_order")]
        return {"inputs": "a, b, c imported in this order; add_relation(a, b, parent_func, child_func) writes a and b back", "expected": before, "observed": [after, after_fo],
                "violates": after != before or after_fo != before}
    for p in U.explore(run, it):
        ok = False
        if p.kind == "return":
            cls = IM.classify([e for e in p.ctx.effects if e[0] in ("execute", "executemany", "executescript")])
            wr = [c for c in cls if c.kind not in ("select", "noeffect")]
            f = p.ctx.stash["f"]
            if len(wr) == 1 and wr[0].kind == "update" and wr[0].table == "features" and wr[0].how == "execute" and wr[0].stmt is not None:
                txt = " ".join(str(wr[0].raw).split())
                setcols = txt[len("UPDATE features SET "):].split(" WHERE ")[0] if txt.startswith("UPDATE features SET ") and " WHERE " in txt else ""
                cols = [c.split("=")[0].strip() for c in setcols.split(",")]
                where = txt.split(" WHERE ")[-1].strip() if " WHERE " in txt else ""
                args = list(wr[0].args) if isinstance(wr[0].args, (list, tuple)) else []
                tup = p.ctx.stash["tup"]
                ok = (cols == list(constants._keys) and where == "id = ?" and len(args) == len(tup) + 1 and all(a is b for a, b in zip(args, tup + [f.id])))
        U.prove("C11.update.keeps_position#p%d" % p.index, "_update writes a feature back with exactly one 'UPDATE features SET <all columns> WHERE id = ?' (astuple() + [id]): the row keeps its place in the scan - no INSERT / REPLACE / DELETE",
                [], z3.BoolVal(bool(ok)), {}, replay=replay)


def _same(a, b):
    if a is b:
        return True
    try:
        from pyvc.core import Sym
        if isinstance(a, Sym) or isinstance(b, Sym):
            za = a.z3() if hasattr(a, "z3") else getattr(a, "e", None)
            zb = b.z3() if hasattr(b, "z3") else getattr(b, "e", None)
            return za is not None and zb is not None and za.eq(zb)
        return a == b
    except Exception:
        return False


def unit_bounded_long_collections(U):
    """Bounded: featuretype given as a LONG collection (hundreds to thousands of names, the stored types scattered through it,
    some names repeated far apart): all_features / features_of_type return each matching feature once, in the requested
    order, like a filter + sort of the full scan"""
    import random
    import gffutils.feature as F
    rng = random.Random(11)
    fails, cases = [], 0
    feats = []
    for i in range(40):
        s_ = rng.randrange(1, 200000)
        f = F.Feature(seqid="c%d" % (i % 3), source="s", featuretype="t%d" % (i % 8), start=s_, end=s_ + rng.randrange(0, 500), strand="+-"[i % 2], attributes={"ID": ["f%d" % i]})
        f.id = "f%d" % i
        feats.append(f)
    db = native_db(feats)
    scan = list(db.all_features())
    for n in ((50, 901, 1850, 2400) if not U.thorough else (50, 500, 899, 900, 901, 1000, 1801, 2400, 5000)):
        for variant in ("scattered", "repeated"):
            names = ["absent%d" % i for i in range(n)]
            present = ["t%d" % i for i in range(8) if i != 3]
            for j, t in enumerate(present):
                names[(j * 977 + 13) % n] = t
            if variant == "repeated":
                names[n - 1] = present[0]
                names[n // 2] = present[1]
            for coll in (list, tuple):
                for ob, rev in ((None, False), ("start", False), ("start", True), (("seqid", "start"), False), ("length", False)):
                    for entry in ("all_features", "features_of_type"):
                        cases += 1
                        kw = {} if ob is None else {"order_by": ob, "reverse": rev}
                        try:
                            if entry == "all_features":
                                got = [f.id for f in db.all_features(featuretype=coll(names), **kw)]
                            else:
                                got = [f.id for f in db.features_of_type(coll(names), **kw)]
                        except Exception as e:
                            fails.append({"case": {"entry": entry, "names": n, "variant": variant, "order_by": ob}, "expected": "rows", "observed": "raised %r" % (e,)})
                            continue
                        sel = [f for f in scan if f.featuretype in set(names)]
                        if ob is None:
                            exp = [f.id for f in sel]
                            ok = got == exp
                        else:
                            keys = [ob] if isinstance(ob, str) else list(ob)
                            kf = lambda f: tuple((f.end - f.start + 1) if k == "length" else getattr(f, k) for k in keys)
                            exp = [f.id for f in sorted(sel, key=kf, reverse=rev)]
                            gotf = [db[i] for i in got]
                            ok = sorted(got) == sorted(exp) and [kf(f) for f in gotf] == [kf(f) for f in sorted(sel, key=kf, reverse=rev)]
                        if not ok and len(fails) < 6:
                            fails.append({"case": {"entry": entry, "featuretype": "%s of %d names (%s)" % (coll.__name__, n, variant), "order_by": ob, "reverse": rev}, "expected": exp[:12], "observed": got[:12]})
    U.bounded_result("C11.bounded.long_collections", "a long featuretype collection selects each matching feature once, in the requested order (== filter + sort of the full scan)",
                     "40 stored features of 8 types; collections of 50 .. 2400 (thorough 5000) names as list / tuple, stored types scattered or repeated; 5 orderings; both entry points", cases, fails)


UNITS = [("bounded.long_collections", unit_bounded_long_collections), ("update.keeps_position", unit_update_keeps_position), ("bounded.lengths", unit_bounded_lengths), ("bounded.odd_featuretypes", unit_bounded_odd_featuretypes), ("bounded.after_imports", unit_bounded_after_imports), ("schema", unit_schema), ("order", unit_order), ("where", unit_where), ("counts", unit_counts), ("bounded", unit_bounded)]


def replay_file(doc):
    return {"error": "re-run ./check C11 to regenerate and replay this obligation", "violates": None, "stored": doc.get("inputs")}
