"""C16 - merge() computes the interval union and partitions its inputs."""
import itertools
import z3

import gffutils
import gffutils.feature as F
import gffutils.interface as I
import gffutils.merge_criteria as MC
import gffutils.helpers as H
import gffutils.bins as B
from gffutils.attributes import Attributes

from pyvc.core import SInt, SBool, SStr, SSeq, Val, Lit, IntLit, Undecided, Ctx, mkstr
from pyvc.interp import Interp, IGen
from pyvc import ghostdb
from contracts.common import blank_feature, bins_contract
from contracts import importer as IM
from contracts.qharness import blank_db, native_db
from props.C04 import _streq

LEVEL = "other"
EXPLANATION = ("PROVED (z3, all coordinates / strings): each of the ten shipped merge criteria equals its arithmetic definition (threshold "
               "closures with a symbolic threshold); _finalize_merge; FeatureDB.merge executed symbolically on input lists of length 1, 2 "
               "and 3 of arbitrary features with the real default criteria and with arbitrary criteria outcomes: per path the outputs "
               "partition the inputs (accepted => one fresh object spanning min start .. max end whose children are the members, id "
               "'<featuretype>_<counter+1>', no column or attribute of an input written, no SQL issued; rejected => the inputs themselves with "
               "children == ()), objects that already went through merge() included; children_bp; merge_all per path.  INPUTS OF EVERY LENGTH (fold rule, "
               "C16.fold.*): the loop body of merge() executed once from an arbitrary loop state satisfying the invariant (four shapes, the "
               "accumulator over c0, k >= 0 generic members, c1) for an arbitrary next feature of a start-ordered input, default and arbitrary "
               "criteria: joins iff the criteria accept (accumulator, feature, members); join = append + extent min/max + id kept or issued; "
               "rejection = _finalize_merge(accumulator, exactly the members) yielded and the feature pending; invariant re-established; the "
               "code after the loop yields the last run; arithmetic lemmas over the step contract: a run is one block of overlapping or adjacent "
               "intervals, runs are maximal, acceptance is start <= max end + 1 (interval union for the default criteria).  BOUNDED (not "
               "counted as proved): whole-input laws for the other shipped criteria / thresholds, re-merging, merge_all on stored features, by "
               "exhaustive enumeration of small interval multisets through the real merge().")
TRUSTED = ["T1 incl. the fold rule for the loop of merge() (invariant in props/C16_fold.py)"]
ASSUMPTIONS = ["the induction from the per-step contract to whole inputs is the fold rule itself (not re-proved by a solver)", "seqids contain no comma (merge() joins seqids with ',')", "children()/all_features() contracts (C02/C11)"]
PRECONDITIONS = ["input is start-ordered (the statement's precondition; clauses about the extent assume it)", "features carry integer coordinates with start <= end (a zero-length feature, end == start-1, is falsy and would be dropped by `if current_merged:`)"]
FUNCTIONS = ["gffutils.merge_criteria:*", "gffutils.interface:_finalize_merge", "gffutils.interface:FeatureDB.merge", "gffutils.interface:FeatureDB.children_bp",
             "gffutils.interface:FeatureDB.merge_all", "gffutils.interface:assign_child", "gffutils.feature:Feature.__len__"]

NOCOMMA = frozenset(",\t\n")


def sfeat(name, with_children=False):
    a = object.__new__(Attributes)
    a._d = {"ID": [SStr([Val(z3.String(name + ".ID"), excl=NOCOMMA, nonempty=True)])]}
    f = blank_feature(seqid=SStr([Val(z3.String(name + ".seqid"), excl=NOCOMMA, nonempty=True)]), source=SStr([Val(z3.String(name + ".source"), excl=NOCOMMA)]),
                      featuretype=SStr([Val(z3.String(name + ".featuretype"), excl=NOCOMMA, nonempty=True)]),
                      strand=SStr([Val(z3.String(name + ".strand"), excl=NOCOMMA)]), frame=SStr([Val(z3.String(name + ".frame"), excl=NOCOMMA)]),
                      start=SInt(z3.Int(name + ".start")), end=SInt(z3.Int(name + ".end")), attributes=a,
                      id=SStr([Val(z3.String(name + ".id"), excl=NOCOMMA, nonempty=True)]))
    if with_children:
        object.__setattr__(f, "children", ())
    return f


def zb(v):
    if isinstance(v, SBool):
        return v.e
    if isinstance(v, bool):
        return z3.BoolVal(v)
    raise Undecided("criterion returned %r" % (v,))


def unit_criteria(U):
    it = Interp()
    A, Cu = "acc", "cur"
    a_s, a_e, c_s, c_e, t = z3.Int("acc.start"), z3.Int("acc.end"), z3.Int("cur.start"), z3.Int("cur.end"), z3.Int("threshold")
    sq = lambda n: z3.String(n)
    specs = {
        "seqid": lambda: sq("cur.seqid") == sq("acc.seqid"),
        "strand": lambda: sq("acc.strand") == sq("cur.strand"),
        "feature_type": lambda: sq("acc.featuretype") == sq("cur.featuretype"),
        "exact_coordinates_only": lambda: z3.And(c_s == a_s, c_e == a_e),
        "overlap_end_inclusive": lambda: z3.And(a_s <= c_s, c_s <= a_e + 1),
        "overlap_start_inclusive": lambda: z3.And(a_s <= c_e + 1, c_e + 1 <= a_e + 1),
        "overlap_any_inclusive": lambda: z3.Or(z3.And(a_s <= c_s, c_s <= a_e + 1), z3.And(a_s <= c_e + 1, c_e + 1 <= a_e + 1)),
        "overlap_end_threshold": lambda: z3.And(a_s <= c_s, c_s <= a_e + t),
        "overlap_start_threshold": lambda: z3.And(a_s - t <= c_e + 1, c_e + 1 <= a_e + 1),
        "overlap_any_threshold": lambda: z3.Or(z3.And(a_s - t <= c_e + 1, c_e + 1 <= a_e + 1), z3.And(a_s <= c_s, c_s <= a_e + t)),
    }
    vars_ = {"acc.start": a_s, "acc.end": a_e, "cur.start": c_s, "cur.end": c_e, "threshold": t}
    vars_.update({k: sq(k) for k in ("acc.seqid", "cur.seqid", "acc.strand", "cur.strand", "acc.featuretype", "cur.featuretype")})
    for name, spec in specs.items():
        fn = getattr(MC, name)

        def run(ctx, fn=fn, name=name):
            acc, cur = sfeat("acc"), sfeat("cur")
            f = fn
            if name.endswith("threshold"):
                f = it.call(fn, [SInt(t)], {})
            return it.call(f, [acc, cur, [acc]], {})

        def replay(m, name=name):
            # the model's coordinates, and for the three string criteria the model's strings plus a neighbourhood of
            # pairs in which one string is a proper part of the other ('chr1' / 'chr10', '' / 'x', '+' / '+-')
            strs = {"seqid": ("acc.seqid", "cur.seqid"), "strand": ("acc.strand", "cur.strand"), "feature_type": ("acc.featuretype", "cur.featuretype")}
            pairs = [("a", "a")]
            if name in strs:
                ka, kc = strs[name]
                pairs = [(m.get(ka, "a"), m.get(kc, "a")), ("chr10", "chr1"), ("chr1", "chr10"), ("x", ""), ("", "x"), ("ab", "ab"), ("+-", "+"), ("exon", "ex")]
            last = None
            for va, vc in pairs:
                kwa = dict(seqid="a", strand="+", featuretype="x")
                kwc = dict(kwa)
                if name in strs:
                    field = {"seqid": "seqid", "strand": "strand", "feature_type": "featuretype"}[name]
                    kwa[field], kwc[field] = va, vc
                acc = F.Feature(start=m.get("acc.start", 1), end=m.get("acc.end", 1), **kwa)
                cur = F.Feature(start=m.get("cur.start", 1), end=m.get("cur.end", 1), **kwc)
                f = getattr(MC, name)
                if name.endswith("threshold"):
                    f = f(m.get("threshold", 0))
                got = bool(f(acc, cur, [acc]))
                sm = {"acc.start": acc.start, "acc.end": acc.end, "cur.start": cur.start, "cur.end": cur.end, "threshold": m.get("threshold", 0)}
                s = z3.Solver()
                s.add(*[vars_[k] == v for k, v in sm.items() if not isinstance(v, dict)])
                for nm, (ka, kc) in strs.items():
                    fa = {"seqid": "seqid", "strand": "strand", "feature_type": "featuretype"}[nm]
                    s.add(sq(ka) == z3.StringVal(kwa[fa]), sq(kc) == z3.StringVal(kwc[fa]))
                s.check()
                exp = z3.is_true(s.model().eval(spec(), model_completion=True))
                last = {"inputs": dict(sm, acc=kwa, cur=kwc), "expected": exp, "observed": got, "violates": got != exp}
                if last["violates"]:
                    return last
            return last
        for p in U.explore(run, it):
            ok = p.kind == "return"
            U.prove("C16.criteria.%s#p%d" % (name, p.index), "%s(acc, cur, members) == its arithmetic definition" % name, p.pc,
                    (zb(p.value) == spec()) if ok else z3.BoolVal(False), vars_, replay=replay)


def unit_finalize(U):
    it = Interp()
    for k in (0, 1, 2, 3):
        def run(ctx, k=k):
            f = sfeat("m")
            kids = [sfeat("k%d" % i) for i in range(k)]
            ctx.stash.update(f=f, kids=kids, src0=f.source)
            return it.call(I._finalize_merge, [f, kids], {})
        for p in U.explore(run, it):
            st = p.ctx.stash
            f, kids = st["f"], st["kids"]
            ok = p.kind == "return" and p.value is f
            if k > 1:
                goal = ok and getattr(f, "children", None) is kids
            else:
                goal = ok and getattr(f, "children", None) == () and f.source is st["src0"]
            U.prove("C16.finalize_merge[%d]#p%d" % (k, p.index), "more than one member ==> feature.children is the member list; else children == () and the feature is untouched", [], z3.BoolVal(bool(goal)), {})


COLS = ("seqid", "source", "featuretype", "start", "end", "score", "strand", "frame", "attributes", "extra", "id", "bin", "dialect")


def _merge_run(it, n, criteria, premerged):
    def run(ctx):
        feats = [sfeat("f%d" % i, with_children=premerged) for i in range(n)]
        for f in feats:
            ctx.assume(f.start.e <= f.end.e)
        for a, b in zip(feats, feats[1:]):
            ctx.assume(a.start.e <= b.start.e)       # start-ordered input (the statement's precondition)
        db = blank_db()
        db._autoincrements = IM.SymMap("cnt")
        it.contracts[B.bins] = bins_contract
        snap = [{c: getattr(f, c) for c in COLS} for f in feats]
        attr_snap = [dict(f.attributes._d) for f in feats]
        ctx.stash.update(feats=feats, db=db, snap=snap, attr_snap=attr_snap)
        if criteria == "default":
            out = list(it.call(I.FeatureDB.merge, [db, feats], {}))
        else:
            # arbitrary criterion: a stub whose outcome is a fresh symbolic boolean per call
            calls = []

            class Crit(object):
                _pyvc_model = True

                def __call__(self, acc, cur, comps):
                    b = ctx.fresh_bool("crit")
                    calls.append((acc, cur, list(comps), b))
                    return SBool(b)
            ctx.stash["calls"] = calls
            out = list(it.call(I.FeatureDB.merge, [db, feats], {"merge_criteria": [Crit()]}))
        return out
    return run


def _native_merge_check(coords, twice=False):
    """replay: merge on concrete features; partition / extent / freshness / inputs unchanged"""
    feats = []
    for i, (sq, s, e, st, ft) in enumerate(coords):
        f = F.Feature(seqid=sq, source="s", featuretype=ft, start=s, end=e, strand=st, attributes={"ID": ["i%d" % i]})
        f.id = "i%d" % i
        feats.append(f)
    db = native_db(feats)
    inputs = list(db.all_features(order_by=("seqid", "featuretype", "strand", "start")))
    before = [str(f) for f in inputs]
    try:
        if twice:
            # the objects first go through a merge() that keeps them apart (they become singles carrying .children)
            list(db.merge(inputs, merge_criteria=[lambda acc, cur, comps: acc is cur]))
        out = list(db.merge(inputs))
        if twice:
            out2 = list(db.merge(inputs))
            if [(o.start, o.end, len(o.children)) for o in out] != [(o.start, o.end, len(o.children)) for o in out2]:
                return "second merge differs"
    except Exception as e:
        return "raised %r" % (e,)
    if [str(f) for f in inputs] != before:
        return "inputs modified"
    seen = []
    for o in out:
        if o.children:
            if o.start != min(c.start for c in o.children) or o.end != max(c.end for c in o.children):
                return "extent wrong"
            seen.extend(id(c) for c in o.children)
        else:
            seen.append(id(o))
    if sorted(seen) != sorted(id(f) for f in inputs):
        return "not a partition"
    return "ok"


def unit_merge_body(U):
    shapes = [(1, "default", False), (2, "default", False), (2, "stub", False), (3, "default", False), (2, "default", True), (3, "stub", False)]
    if not U.thorough:
        shapes = [s for s in shapes if s != (3, "stub", False)]
    for n, criteria, premerged in shapes:
        it = Interp()
        run = _merge_run(it, n, criteria, premerged)
        base = "C16.merge[n=%d,%s%s]" % (n, criteria, ",premerged" if premerged else "")

        def replay(m, n=n, premerged=premerged):
            g = lambda k, d: m.get(k, d)
            coords = []
            for i in range(n):
                coords.append(("c", g("f%d.start" % i, 1 + 3 * i), g("f%d.end" % i, 2 + 3 * i), "+", "exon"))
            coords.sort(key=lambda c: c[1])
            r = _native_merge_check(coords, twice=premerged)
            r2 = _native_merge_check([("c", 1, 5, "+", "exon"), ("c", 3, 9, "+", "exon"), ("c", 20, 30, "+", "exon")], twice=True)
            return {"inputs": coords, "expected": "ok", "observed": [r, r2], "violates": r != "ok" or r2 != "ok"}
        for p in U.explore(run, it, max_paths=40000):
            st = p.ctx.stash
            feats = st.get("feats")
            vars_ = {}
            for i in range(n):
                vars_["f%d.start" % i] = z3.Int("f%d.start" % i)
                vars_["f%d.end" % i] = z3.Int("f%d.end" % i)
            if p.kind != "return":
                U.prove(base + ".noraise#p%d" % p.index, "merge raises nothing on features with integer coordinates, objects from an earlier merge included (got %r)" % (p.value,),
                        p.pc, z3.BoolVal(False), vars_, replay=replay)
                continue
            out = p.value
            # partition: every input is yielded itself with no children, or is a child of exactly one fresh output
            where = {id(f): [] for f in feats}
            okstruct = True
            fresh = []
            for o in out:
                ch = getattr(o, "children", None)
                if any(o is f for f in feats):
                    if ch != ():
                        okstruct = False
                    where[id(o)].append("self")
                else:
                    fresh.append(o)
                    if not ch or len(ch) < 2:
                        okstruct = False
                    for c in (ch or []):
                        if id(c) in where:
                            where[id(c)].append("child")
                        else:
                            okstruct = False
            okpart = okstruct and all(len(v) == 1 for v in where.values())
            U.prove(base + ".partition#p%d" % p.index, "every input is yielded itself with children == () or is a child of exactly one fresh merged output (>= 2 children)", [], z3.BoolVal(okpart), vars_, replay=replay)
            # extents and ids of merged outputs
            goals = []
            for o in fresh:
                ch = o.children
                mn = ch[0].start.e
                mx = ch[0].end.e
                for c in ch[1:]:
                    mn = z3.If(c.start.e < mn, c.start.e, mn)
                    mx = z3.If(c.end.e > mx, c.end.e, mx)
                goals.append(z3.And(o.start.e == mn, o.end.e == mx) if isinstance(o.start, SInt) and isinstance(o.end, SInt) else z3.BoolVal(False))
                goals.append(_streq(o.id, o.attributes._d["ID"][0]) if "ID" in o.attributes._d else z3.BoolVal(False))
            U.prove(base + ".extent#p%d" % p.index, "a merged output spans min start .. max end of its children; its id equals its ID attribute", p.pc, z3.And(*goals) if goals else z3.BoolVal(True), vars_, replay=replay)
            if len(fresh) >= 2:
                U.prove(base + ".fresh_ids#p%d" % p.index, "merged outputs of one call carry distinct ids", p.pc,
                        z3.And(*[z3.Not(_streq(a.id, b.id)) for a, b in itertools.combinations(fresh, 2)]), vars_, replay=replay)
            cnt = st["db"]._autoincrements
            if fresh:
                o = fresh[0]
                ft = o.children[0].featuretype
                n0 = z3.Select(cnt.arr0, ft.z3()) + 1
                U.prove(base + ".id_format#p%d" % p.index, "the first merged output's id is '<featuretype of the run>_<counter+1>'", p.pc,
                        _streq(o.id, SStr(list(ft.atoms) + [Lit("_"), IntLit(n0)])), vars_, replay=replay)
            # frame: no column / attribute of an input object is written; no SQL statement is issued
            writes = p.ctx.writes
            bad = [w for w in writes if any(w[0] is f for f in feats) and w[1] != "children"]
            bad += [w for w in writes if any(w[0] is f.attributes or w[0] is f.attributes._d for f in feats)]
            same = all(getattr(f, c) is st["snap"][i][c] for i, f in enumerate(feats) for c in COLS) and all(dict(f.attributes._d) == st["attr_snap"][i] for i, f in enumerate(feats))
            U.prove(base + ".frame#p%d" % p.index, "inputs' columns and attributes unchanged; the database is not touched (no statement)", [],
                    z3.BoolVal(not bad and same and not ghostdb.executes(p.ctx)), vars_, replay=replay)
            # a feature joins the current run exactly when every criterion accepts (stub criteria): outputs follow the outcomes
            if criteria == "stub" and n == 2:
                calls = st["calls"]
                last = calls[-1][3] if calls else None
                merged = len(fresh) == 1
                # the decisive call is (run so far, feature): acc is the first input (or its copy), cur the second
                decisive = [c for c in calls if c[1] is feats[1] and c[0] is not feats[1]]
                if len(decisive) == 1:
                    g = decisive[0][3] == z3.BoolVal(merged)
                elif not decisive:
                    g = z3.BoolVal(not merged)       # the first feature was rejected on its own: no run to join
                else:
                    g = z3.BoolVal(False)
                U.prove(base + ".criteria_decide#p%d" % p.index, "the second feature joins the run exactly when the criterion accepts the pair (run so far, feature)", p.pc,
                        g, vars_, replay=replay)


def unit_children_bp(U):
    it = Interp()
    for merge in (False, True):
        def run(ctx, merge=merge):
            n = z3.Int("n")
            sf = z3.Function("c.start", z3.IntSort(), z3.IntSort())
            ef = z3.Function("c.end", z3.IntSort(), z3.IntSort())
            kids = [blank_feature(start=SInt(sf(i)), end=SInt(ef(i))) for i in range(3)]
            for i in range(3):
                ctx.assume(sf(i) <= ef(i))
            calls = {}

            def children(interp, args, kwargs):
                calls["children"] = kwargs
                return iter(kids)

            def mergec(interp, args, kwargs):
                calls["merge"] = (args[1], kwargs)
                return iter(kids[:2])
            it.contracts[I.FeatureDB.children] = children
            it.contracts[I.FeatureDB.merge] = mergec
            ctx.stash.update(kids=kids, calls=calls)
            return it.call(I.FeatureDB.children_bp, [blank_db(), "x"], {"merge": merge})
        for p in U.explore(run, it):
            st = p.ctx.stash
            ok = p.kind == "return" and isinstance(p.value, SInt)
            kids = st["kids"]
            use = kids[:2] if merge else kids
            total = sum([(k.end.e - k.start.e + 1) for k in use[1:]], use[0].end.e - use[0].start.e + 1)
            okcall = st["calls"].get("children", {}).get("featuretype") == "exon" and st["calls"].get("children", {}).get("order_by") == "start" and (("merge" in st["calls"]) == merge)
            U.prove("C16.children_bp[merge=%s]#p%d" % (merge, p.index), "children_bp == sum of len(child) over children(feature, child_featuretype, order_by='start') (over merge(...) of them with merge=True)",
                    p.pc, z3.And(p.value.e == total, z3.BoolVal(okcall)) if ok else z3.BoolVal(False), {})
    # the criteria are INPUTS: a caller's list is handed to merge() as it is and is left as it was; the defaults of merge /
    # merge_all / children_bp are the four documented criteria after any call (several child featuretypes included)
    import inspect
    DEFAULT4 = [MC.seqid, MC.overlap_end_inclusive, MC.strand, MC.feature_type]
    for cft, own in itertools.product(("exon", ("exon", "CDS"), None), (False, True)):
        def run3(ctx, cft=cft, own=own):
            kids = [blank_feature(start=SInt(z3.Int("k%d.start" % i)), end=SInt(z3.Int("k%d.end" % i))) for i in range(2)]
            for k in kids:
                ctx.assume(k.start.e <= k.end.e)
            calls = {}

            def mergec(interp, args, kwargs):
                mcrit = kwargs.get("merge_criteria", args[2] if len(args) > 2 else None)
                calls["merge"] = (mcrit, None if mcrit is None else list(mcrit))
                return iter(kids[:1])
            it.contracts[I.FeatureDB.children] = lambda interp, a, k: iter(kids)
            it.contracts[I.FeatureDB.merge] = mergec
            crit = [MC.seqid, MC.feature_type]
            kw = {"merge": True, "child_featuretype": cft}
            if own:
                kw["merge_criteria"] = crit
            r = it.call(I.FeatureDB.children_bp, [blank_db(), "x"], kw)
            dflt = {}
            for fn in (I.FeatureDB.merge, I.FeatureDB.merge_all, I.FeatureDB.children_bp):
                d = inspect.signature(fn).parameters["merge_criteria"].default
                dflt[fn.__name__] = list(d) if isinstance(d, (list, tuple)) else d
            ctx.stash.update(calls=calls, crit=crit, dflt=dflt)
            return r

        def replay3(m):
            mk = lambda i, ft, s, e: F.Feature(seqid="c", source="s", featuretype=ft, start=s, end=e, strand="+", attributes={"ID": [i], "Parent": ["g"]})
            g = F.Feature(seqid="c", source="s", featuretype="gene", start=1, end=100, strand="+", attributes={"ID": ["g"]})
            db = gffutils.create_db([g, mk("e1", "exon", 1, 50), mk("c1", "CDS", 10, 60), mk("e2", "exon", 40, 80)], ":memory:")
            crit = [MC.seqid, MC.overlap_end_inclusive, MC.strand, MC.feature_type]
            before = list(crit)
            first = [(o.start, o.end, o.featuretype) for o in db.merge(list(db.children("g", order_by=("featuretype", "start"))))]
            db.children_bp("g", child_featuretype=("exon", "CDS"), merge=True)
            db.children_bp("g", child_featuretype=("exon", "CDS"), merge=True, merge_criteria=crit)
            again = [(o.start, o.end, o.featuretype) for o in db.merge(list(db.children("g", order_by=("featuretype", "start"))))]
            return {"inputs": "exon 1-50, CDS 10-60, exon 40-80 under g; merge by default criteria, children_bp(g, ('exon', 'CDS'), merge=True) with default and with own criteria, merge again",
                    "expected": [first, before], "observed": [again, crit], "violates": again != first or crit != before}
        for p in U.explore(run3, it):
            st = p.ctx.stash
            ok = p.kind == "return"
            if ok:
                got, got_copy = st["calls"].get("merge", (None, None))
                if own:
                    ok = st["crit"] == [MC.seqid, MC.feature_type] and got_copy == [MC.seqid, MC.feature_type]
                else:
                    ok = got_copy is None or got_copy == DEFAULT4
                ok = ok and all(v == DEFAULT4 for v in st["dflt"].values())
            U.prove("C16.children_bp.criteria[types=%s,%s]#p%d" % ("one" if cft == "exon" else ("several" if cft else "all"), "own" if own else "default", p.index),
                    "the merge criteria reach merge() as given (the four documented ones by default) whatever child featuretypes are asked for; a caller's list is not edited; the defaults of merge / merge_all / children_bp are unchanged afterwards",
                    [], z3.BoolVal(bool(ok)), {}, replay=replay3)
    for kw in ({"ignore_strand": True}, {"bogus": 1}):
        def run2(ctx, kw=kw):
            return it.call(I.FeatureDB.children_bp, [blank_db(), "x"], dict(kw))
        for p in U.explore(run2, it):
            U.prove("C16.children_bp.kwargs[%s]#p%d" % (list(kw)[0], p.index), "unexpected keyword arguments raise", [],
                    z3.BoolVal(p.kind == "raise" and isinstance(p.value, (ValueError, TypeError)) and not ghostdb.executes(p.ctx)), {})


def unit_merge_all(U):
    it = Interp()
    for exclude in (False, True):
        def run(ctx, exclude=exclude):
            kids = [sfeat("k0"), sfeat("k1")]
            merged = sfeat("m")
            object.__setattr__(merged, "children", kids)
            single = sfeat("s")
            object.__setattr__(single, "children", ())
            log = []
            it.contracts[I.FeatureDB.merge] = lambda interp, a, k: iter([merged, single])
            it.contracts[I.FeatureDB.all_features] = lambda interp, a, k: iter([])
            it.contracts[I.FeatureDB._insert] = lambda interp, a, k: log.append(("insert", a[1]))
            it.contracts[I.FeatureDB.delete] = lambda interp, a, k: log.append(("delete", a[1]))
            it.contracts[I.FeatureDB.add_relation] = lambda interp, a, k: log.append(("add_relation", a[1], a[2], a[3], k.get("child_func")))
            ctx.stash.update(kids=kids, merged=merged, single=single, log=log)
            return it.call(I.FeatureDB.merge_all, [blank_db()], {"exclude_components": exclude})
        for p in U.explore(run, it):
            st = p.ctx.stash
            log, merged, kids, single = st["log"], st["merged"], st["kids"], st["single"]
            ok = p.kind == "return" and p.value == [merged]
            if exclude:
                want = [("insert", merged), ("delete", kids)]
                ok = ok and len(log) == 2 and log[0][0] == "insert" and log[0][1] is merged and log[1][0] == "delete" and log[1][1] is kids
            else:
                ok = ok and len(log) == 3 and log[0][0] == "insert" and log[0][1] is merged and all(
                    l[0] == "add_relation" and l[1] is merged and l[2] is kids[i] and l[3] == 1 and l[4] is I.assign_child for i, l in enumerate(log[1:]))
            U.prove("C16.merge_all[exclude=%s]#p%d" % (exclude, p.index),
                    "a multi-member output is inserted once and its members are deleted (exclude_components) or related to it at level 1 with assign_child; single outputs cause no write", [], z3.BoolVal(bool(ok)), {})

    # assign_child: child's Parent becomes the parent's ID
    def run3(ctx):
        par, ch = sfeat("p"), sfeat("c")
        ctx.stash.update(par=par, ch=ch)
        return it.call(I.assign_child, [par, ch], {})
    for p in U.explore(run3, it):
        st = p.ctx.stash
        ok = p.kind == "return" and p.value is st["ch"] and st["ch"].attributes._d.get("Parent") is st["par"].attributes._d["ID"]
        U.prove("C16.assign_child#p%d" % p.index, "assign_child sets child.attributes['Parent'] to the parent's ID values and returns the child", [], z3.BoolVal(bool(ok)), {})


def unit_bounded_identical_lines(U):
    """Bounded: the interval MULTISET counts: distinct stored features whose lines are character-identical (repeated exon lines
    without an ID, filed as exon_1, exon_2) are separate children - children_bp sums each of them, merge_all relates each of them"""
    import gffutils
    import gffutils.feature as F_
    fails, cases = [], 0
    for intervals in (((1, 10), (1, 10), (8, 20), (40, 50)), ((5, 9), (5, 9), (5, 9)), ((1, 4), (6, 9), (6, 9), (30, 31))):
        feats = [F_.Feature(seqid="c", source="s", featuretype="mRNA", start=1, end=100, strand="+", attributes={"ID": ["t"]})]
        feats += [F_.Feature(seqid="c", source="s", featuretype="exon", start=a, end=b, strand="+", attributes={"Parent": ["t"]}) for a, b in intervals]
        try:
            db = gffutils.create_db(feats, ":memory:")
            kids = list(db.children("t", featuretype="exon"))
            cases += 1
            plain = db.children_bp("t", child_featuretype="exon")
            exp_plain = sum(b - a + 1 for a, b in intervals)
            covered = set()
            for a, b in intervals:
                covered |= set(range(a, b + 1))
            merged = db.children_bp("t", child_featuretype="exon", merge=True)
            if len(kids) != len(intervals) or plain != exp_plain or merged != len(covered):
                fails.append({"case": {"exons": intervals}, "expected": {"children": len(intervals), "children_bp": exp_plain, "children_bp(merge=True)": len(covered)},
                              "observed": {"children": len(kids), "children_bp": plain, "children_bp(merge=True)": merged}})
            cases += 1
            res = db.merge_all(featuretypes_groups=("exon",))
            for m in res:
                want = sorted(c.id for c in m.children)
                got = sorted(c.id for c in db.children(m.id, level=1))
                if got != want:
                    fails.append({"case": {"exons": intervals, "merged": m.id}, "expected": want, "observed": got})
        except Exception as e:
            fails.append({"case": {"exons": intervals}, "expected": "no exception", "observed": repr(e)})
    U.bounded_result("C16.bounded.identical_lines", "children_bp and merge_all treat character-identical stored features as separate members", "3 interval multisets with repeated intervals", cases, fails)

UNITS = [("bounded.identical_lines", unit_bounded_identical_lines), ("criteria", unit_criteria), ("finalize", unit_finalize), ("merge_body", unit_merge_body), ("children_bp", unit_children_bp), ("merge_all", unit_merge_all)]
from props import C16_fold as _FOLD
UNITS = UNITS + list(_FOLD.UNITS)
try:
    from standins import C16 as _S
    UNITS = UNITS + list(_S.UNITS)
except ImportError:
    pass


def replay_file(doc):
    return {"error": "re-run ./check C16 to regenerate and replay this obligation", "violates": None, "stored": doc.get("inputs")}


def replay_known(entry):
    if entry.get("replay") == "explicit-generated-id":
        fs = []
        for i, (s, e) in enumerate([(1, 5), (3, 8), (20, 22)]):
            f = F.Feature(seqid="c1", source="s1", featuretype="exon", start=s, end=e, strand="+", attributes={"ID": ["exon_%d" % (i + 1)]})
            f.id = "exon_%d" % (i + 1)
            fs.append(f)
        db = native_db(fs)
        out = [o for o in db.merge(db.all_features(order_by="start")) if o.children]
        return bool(out) and out[0].id in ("exon_1", "exon_2", "exon_3")
    return None
