"""C13 - all input forms are equivalent and dialect peeking never consumes data."""
import itertools
import os
import tempfile
import types
import z3

import gffutils
import gffutils.iterators as IT
import gffutils.create as C
import gffutils.interface as I
import gffutils.inspect as INS
import gffutils.helpers as H
import gffutils.feature as F
from gffutils import constants

from pyvc.core import SInt, SBool, SStr, Val, Lit, Undecided, Ctx, mkstr
from pyvc.interp import Interp, IGen
from contracts.common import blank_feature
from contracts import pipeline as PL
from contracts import importer as IM

LEVEL = "other"
EXPLANATION = ("PROVED (z3 / structural, per function): _FeatureIterator.peek(n) for a symbolic n on sources of length 0..4 in five forms "
               "(list, tuple, list iterator, generator, map object): returns the first min(n+1, len) items and, for one-shot sources, "
               "leaves an iterator whose items are exactly the original ones (nothing dropped, duplicated or reordered); "
               "_BaseIterator.__init__ modes; _BaseIterator.__iter__: every item gets the iterator's dialect, the transform is called "
               "exactly once per item and the result is yielded iff it is a true value, nothing is raised when the transform does not "
               "raise; DataIterator dispatch per input kind (an iterator instance is returned unchanged; from_string writes the dedented "
               "text to a fresh temp file); create_db hands the already-peeked iterator to the importer (identity; file opened once per "
               "pass; checklines forwarded as 0) - by end-to-end symbolic execution of the real create_db on ghost files; inspect() "
               "counts exactly the items iterated (min(limit, n)).  ASSUMED: open/gzip.open yield the file's lines, dedent is the identity "
               "on text whose first column is non-blank, a FeatureDB yields its features in input order (C01/C11).  BOUNDED (not counted as "
               "proved): the seven input forms x every checklines value through the real code.")
TRUSTED = ["T1 incl. thread-backed lazy generators", "contracts/pipeline.py"]
ASSUMPTIONS = ["A-P itertools.chain, enumerate, open/gzip.open, textwrap.dedent, tempfile"]
PRECONDITIONS = ["transform does not raise"]
FUNCTIONS = ["gffutils.iterators:_FeatureIterator.peek", "gffutils.iterators:_FeatureIterator._custom_iter", "gffutils.iterators:_FileIterator.peek",
             "gffutils.iterators:_BaseIterator.__init__", "gffutils.iterators:_BaseIterator.__iter__", "gffutils.iterators:DataIterator",
             "gffutils.create:create_db", "gffutils.inspect:inspect"]


def items(k):
    return [blank_feature(id="item%d" % i, start=SInt(z3.Int("s%d" % i)), end=SInt(z3.Int("e%d" % i))) for i in range(k)]


def source_forms():
    yield "list", lambda xs: list(xs), False
    yield "tuple", lambda xs: tuple(xs), False
    yield "list_iterator", lambda xs: iter(list(xs)), True
    yield "generator", lambda xs: (x for x in list(xs)), True
    yield "map", lambda xs: map(lambda x: x, list(xs)), True
    yield "chain", lambda xs: itertools.chain(list(xs)[:1], list(xs)[1:]), True


def unit_peek(U, prefix="C13"):
    it = Interp()
    maxk = 5 if U.thorough else 4
    for k in range(0, maxk):
        for form, mk, oneshot in source_forms():
            n = z3.Int("n")

            def run(ctx, k=k, mk=mk):
                ctx.assume(n >= 0)
                xs = items(k)
                self_ = object.__new__(IT._FeatureIterator)
                self_.data = mk(xs)
                data0 = self_.data
                r = it.call(IT._FeatureIterator.peek, [self_, SInt(n)], {})
                rest = list(self_.data) if oneshot_flag[0] else None
                return {"xs": xs, "ret": r, "rest": rest, "same": self_.data is data0, "data": self_.data}
            oneshot_flag = [oneshot]

            def replay(m, k=k, form=form, mk=mk, oneshot=oneshot):
                nn = max(0, int(m.get("n", 0)))
                xs = [F.Feature(seqid="c", start=i + 1, end=i + 2, attributes={"ID": ["i%d" % i]}) for i in range(k)]
                d = IT.DataIterator(mk(xs), checklines=nn, dialect=None)
                peeked = list(d._peek)
                got = list(d)
                bad = [id(x) for x in peeked] != [id(x) for x in xs[:min(nn + 1, k)]] or [id(x) for x in got] != [id(x) for x in xs]
                return {"inputs": {"form": form, "len": k, "checklines": nn}, "expected": "peek = first min(n+1,len); iteration yields every item once, in order",
                        "observed": "peeked %d, iterated %d of %d" % (len(peeked), len(got), k), "violates": bad}
            for p in U.explore(run, it):
                base = "%s.feat_peek[%s,len=%d]" % (prefix, form, k)
                if p.kind != "return":
                    U.prove(base + ".noraise#p%d" % p.index, "peek raises nothing (got %r)" % (p.value,), p.pc, z3.BoolVal(False), {"n": n}, replay=replay)
                    continue
                r = p.value
                xs, ret = r["xs"], r["ret"]
                # prefix clause: ret == xs[:min(n+1, k)]
                conds = []
                for j in range(0, k + 1):
                    is_j = (len(ret) == j and all(a is b for a, b in zip(ret, xs[:j])))
                    want_j = z3.If(n + 1 < k, n + 1, z3.IntVal(k)) == j
                    conds.append(z3.Implies(want_j, z3.BoolVal(is_j)))
                U.prove(base + ".prefix#p%d" % p.index, "peek(n) returns the first min(n+1, len) items, in order", p.pc, z3.And(*conds), {"n": n}, replay=replay)
                if oneshot:
                    ok = r["rest"] is not None and len(r["rest"]) == k and all(a is b for a, b in zip(r["rest"], xs))
                    U.prove(base + ".restore#p%d" % p.index, "one-shot source: after peeking, the iterator's remaining items are exactly the original items (none dropped, duplicated or reordered)",
                            p.pc, z3.BoolVal(bool(ok)), {"n": n}, replay=replay)
                else:
                    U.prove(base + ".untouched#p%d" % p.index, "re-iterable source: self.data is left as it was", [], z3.BoolVal(bool(r["same"])), {"n": n}, replay=replay)


def unit_iter(U):
    """_BaseIterator.__iter__: dialect attached, transform exactly once, yielded iff truthy, raises nothing"""
    it = Interp()
    for mode in ("none", "feature-int-coords", "feature-no-coords", "false", "none-result", "other-truthy"):
        def run(ctx, mode=mode):
            xs = items(2)
            self_ = object.__new__(IT._FeatureIterator)
            self_.data = list(xs)
            self_.dialect = {"fmt": "gff3", "marker": True}
            calls = []
            outs = []

            class T(object):
                _pyvc_model = True

                def __call__(self, f):
                    calls.append(f)
                    if mode == "feature-int-coords":
                        o = blank_feature(id="out%d" % len(calls), start=SInt(z3.Int("ts%d" % len(calls))), end=SInt(z3.Int("te%d" % len(calls))))
                    elif mode == "feature-no-coords":
                        o = blank_feature(id="out%d" % len(calls), start=None, end=None)
                    elif mode == "false":
                        o = False
                    elif mode == "none-result":
                        o = None
                    else:
                        o = ("tuple", len(calls))
                    outs.append(o)
                    return o
            self_.transform = None if mode == "none" else T()
            ctx.stash.update(xs=xs, calls=calls, outs=outs, self_=self_)
            return list(it.call(IT._BaseIterator.__iter__, [self_], {}))

        def replay(m, mode=mode):
            feats = [F.Feature(seqid="c", start=5, end=9, attributes={"ID": ["a"]}), F.Feature(seqid="c", start=15, end=19, attributes={"ID": ["b"]})]
            calls = []

            def tr(f):
                calls.append(f)
                if mode == "feature-no-coords":
                    return F.Feature(seqid="c", attributes={"ID": ["nc"]})
                if mode == "feature-int-coords":
                    return F.Feature(seqid="c", start=m.get("ts1", 3), end=m.get("te1", 4), attributes={"ID": ["ic"]})
                if mode == "false":
                    return False
                if mode == "none-result":
                    return None
                return f
            try:
                got = list(IT.DataIterator(feats, transform=None if mode == "none" else tr, dialect=constants.dialect))
            except Exception as e:
                return {"inputs": {"mode": mode, "model": m}, "observed": "raised %r" % (e,), "violates": True}
            n_exp = 0 if mode in ("false", "none-result") else 2
            return {"inputs": {"mode": mode}, "expected": "%d yielded, transform called twice" % n_exp, "observed": "%d yielded, %d calls" % (len(got), len(calls)),
                    "violates": (mode != "feature-int-coords" and len(got) != n_exp) or (mode != "none" and len(calls) != 2)}
        for p in U.explore(run, it):
            st = p.ctx.stash
            base = "C13.iter[%s]" % mode
            vars_ = {k: z3.Int(k) for k in ("ts1", "te1", "ts2", "te2")}
            if p.kind != "return":
                U.prove(base + ".noraise#p%d" % p.index, "iteration raises nothing when the transform does not (got %r)" % (p.value,), p.pc, z3.BoolVal(False), vars_, replay=replay)
                continue
            out, xs, calls, outs = p.value, st["xs"], st["calls"], st["outs"]
            dial = all(x.dialect is st["self_"].dialect for x in xs)
            if mode == "none":
                ok = len(out) == 2 and all(a is b for a, b in zip(out, xs)) and dial and not calls
                U.prove(base + "#p%d" % p.index, "no transform: every item is yielded once, carrying the iterator's dialect", [], z3.BoolVal(bool(ok)), {}, replay=replay)
                continue
            once = len(calls) == 2 and all(a is b for a, b in zip(calls, xs)) and dial
            U.prove(base + ".once#p%d" % p.index, "the transform is applied exactly once to each item, in order, after the dialect is attached", [], z3.BoolVal(bool(once)), {}, replay=replay)
            if mode in ("false", "none-result"):
                U.prove(base + ".skipped#p%d" % p.index, "a false result is skipped", [], z3.BoolVal(out == []), {}, replay=replay)
            elif mode == "other-truthy":
                U.prove(base + ".yielded#p%d" % p.index, "true results are yielded, in order", [], z3.BoolVal(len(out) == 2 and all(a is b for a, b in zip(out, outs))), {}, replay=replay)
            else:
                # a returned Feature is kept whatever its coordinates (only false *values* such as None / False are skipped)
                conds = [z3.BoolVal(len(out) == len(outs) and all(a is b for a, b in zip(out, outs)))]
                U.prove(base + ".yielded#p%d" % p.index, "a returned Feature is yielded (only a false value is skipped)", p.pc, z3.And(*conds), vars_, replay=replay)


def unit_dispatch(U, prefix="C13", only=None):
    it = Interp()
    made = []

    def fake(kind):
        def c(interp, a, k):
            o = ("iterator", kind, dict(k))
            made.append(o)
            return o
        return c

    def run_form(form):
        def run(ctx):
            del made[:]
            it.contracts[IT._FileIterator] = fake("file")
            it.contracts[IT._UrlIterator] = fake("url")
            it.contracts[IT._FeatureIterator] = fake("feature")
            fs = IM.GhostFS()
            fs.install(it)
            it.contracts[os.path.exists] = lambda interp, a, k: a[0] == "/ghost/exists.gff"
            it.contracts[IT.is_url] = lambda interp, a, k: a[0].startswith("http")
            it.contracts[IT.dedent] = lambda interp, a, k: a[0]
            ctx.stash["fs"] = fs
            if form in ("iterator", "iterator+kwargs"):
                obj = object.__new__(IT._FeatureIterator)
                own = {"fmt": "gtf", "marker": "the iterator's own (inferred) dialect"}
                obj.dialect, obj._peek, obj.transform, obj.directives = own, ["peeked"], None, ["d"]
                ctx.stash["before"] = dict(vars(obj))
                kw = {} if form == "iterator" else {"dialect": {"fmt": "gff3"}, "checklines": 3, "transform": "T", "force_dialect_check": False}
                return it.call(IT.DataIterator, [obj], kw), obj
            if form == "path":
                return it.call(IT.DataIterator, ["/ghost/exists.gff"], {"checklines": 3}), None
            if form == "url":
                return it.call(IT.DataIterator, ["http://x/y.gff"], {}), None
            if form == "missing":
                return it.call(IT.DataIterator, ["/ghost/missing.gff"], {}), None
            if form == "string":
                return it.call(IT.DataIterator, ["chr1\t.\tgene\t1\t2\t.\t+\t.\tID=a\n"], {"from_string": True, "checklines": 2}), None
            if form == "db":
                from contracts.qharness import blank_db
                db = blank_db()
                it.contracts[I.FeatureDB.all_features] = lambda interp, a, k: ("all_features", a[0])
                ctx.stash["db"] = db
                return it.call(IT.DataIterator, [db], {}), None
            if form == "list":
                xs = items(2)
                ctx.stash["xs"] = xs
                return it.call(IT.DataIterator, [xs], {"transform": "T"}), None
        return run
    def replay_iter(m):
        # data written in one dialect, handed to update() of a database in another: it must be read in ITS dialect
        a = "c\ts\tgene\t1\t90\t.\t+\t.\tID=g1;Name=n1\n"
        b = "c\ts\tmRNA\t1\t90\t.\t+\t.\tID=m1; Parent=g1; Name=n2;\n"
        db = gffutils.create_db(a, ":memory:", from_string=True)
        d = IT.DataIterator(b, from_string=True)
        before = dict(d.dialect)
        r = IT.DataIterator(d, dialect=db.dialect, checklines=2)
        db.update(d, make_backup=False)
        got = sorted(db["m1"].attributes.keys()) if "m1" in [f.id for f in db.all_features()] else "m1 missing"
        obs = {"same object": r is d, "dialect kept": dict(d.dialect) == before, "m1 keys": got, "parents(m1)": [p.id for p in db.parents("m1")] if got != "m1 missing" else None}
        exp = {"same object": True, "dialect kept": True, "m1 keys": ["ID", "Name", "Parent"], "parents(m1)": ["g1"]}
        return {"inputs": {"database text": a, "update text": b}, "expected": exp, "observed": obs, "violates": obs != exp}
    for form in ("iterator", "iterator+kwargs", "path", "url", "missing", "string", "db", "list"):
        if only is not None and form not in only:
            continue
        for p in U.explore(run_form(form), it):
            st = p.ctx.stash
            ok = False
            if form == "missing":
                ok = p.kind == "raise" and isinstance(p.value, ValueError)
            elif p.kind == "return":
                r, obj = p.value
                if form in ("iterator", "iterator+kwargs"):
                    now = dict(vars(obj))
                    ok = r is obj and set(now) == set(st["before"]) and all(now[k] is st["before"][k] for k in now)
                elif form == "path":
                    ok = r[1] == "file" and r[2]["data"] == "/ghost/exists.gff" and r[2]["checklines"] == 3
                elif form == "url":
                    ok = r[1] == "url"
                elif form == "string":
                    fs = st["fs"]
                    ok = (r[1] == "file" and len(fs.created) == 1 and r[2]["data"] == fs.created[0] and r[2]["checklines"] == 2
                          and fs.files.get(fs.created[0]) == [b"chr1\t.\tgene\t1\t2\t.\t+\t.\tID=a\n"])
                elif form == "db":
                    ok = r[1] == "feature" and r[2]["data"] == ("all_features", st["db"])
                elif form == "list":
                    ok = r[1] == "feature" and r[2]["data"] is st["xs"] and r[2]["transform"] == "T"
            U.prove("%s.DataIterator.route[%s]#p%d" % (prefix, form, p.index),
                    "input kind %s is routed as the statement says (iterator instance returned as it is - same object, every attribute untouched, whatever keywords accompany it; string -> temp file with the text; path; URL; FeatureDB -> all_features(); other iterable)" % form,
                    [], z3.BoolVal(bool(ok)), {}, replay=replay_iter if form.startswith("iterator") else None)


def unit_init_modes(U):
    it = Interp()
    for mode in ("both", "dialect", "peek", "force"):
        def run(ctx, mode=mode):
            self_ = object.__new__(IT._FeatureIterator)
            xs = items(2)
            it.contracts[H._choose_dialect] = lambda interp, a, k: ("chosen", a[0])
            d = {"fmt": "gff3"}
            ctx.stash.update(xs=xs, d=d, self_=self_)
            kw = {"both": dict(force_dialect_check=True, dialect=d), "dialect": dict(dialect=d), "peek": dict(checklines=0), "force": dict(force_dialect_check=True)}[mode]
            it.call(IT._BaseIterator.__init__, [self_, xs], kw)
            return self_
        def replay(m, mode=mode):
            # GTF-looking features: the inferred dialect must say so, whatever checklines is (0 still inspects one item)
            mk = lambda i: F.Feature(seqid="c", featuretype="exon", start=i + 1, end=i + 2, attributes={"gene_id": ["g"], "transcript_id": ["t%d" % i]},
                                     dialect=dict(constants.dialect, fmt="gtf"))
            from gffutils.parser import _split_keyvals
            lines = ['c\ts\texon\t%d\t%d\t.\t+\t.\tgene_id "g"; transcript_id "t%d";' % (i + 1, i + 2, i) for i in range(3)]
            xs = [F.feature_from_line(l) for l in lines]
            d = {"fmt": "gff3"}
            try:
                if mode == "both":
                    try:
                        IT.DataIterator(xs, force_dialect_check=True, dialect=d)
                        return {"inputs": mode, "observed": "no error", "violates": True}
                    except ValueError:
                        return {"inputs": mode, "observed": "ValueError", "violates": False}
                if mode == "dialect":
                    di = IT.DataIterator(xs, dialect=d)
                    return {"inputs": mode, "observed": repr(di.dialect)[:80], "violates": di.dialect is not d}
                if mode == "peek":
                    obs = []
                    for cl in (0, 1, 5):
                        di = IT.DataIterator(list(xs), checklines=cl)
                        obs.append((cl, di.dialect.get("fmt"), len(di._peek)))
                    exp = [(0, "gtf", 1), (1, "gtf", 2), (5, "gtf", 3)]
                    return {"inputs": {"mode": mode, "lines": lines}, "expected": exp, "observed": obs, "violates": obs != exp}
                di = IT.DataIterator(xs, force_dialect_check=True)
                return {"inputs": mode, "observed": repr(di.dialect), "violates": di.dialect is not None}
            except Exception as ex:
                return {"inputs": mode, "observed": "raised %r" % (ex,), "violates": True}
        for p in U.explore(run, it):
            st = p.ctx.stash
            if mode == "both":
                ok = p.kind == "raise" and isinstance(p.value, ValueError)
            elif p.kind != "return":
                ok = False
            elif mode == "dialect":
                ok = p.value.dialect is st["d"] and not hasattr(p.value, "_peek")
            elif mode == "peek":
                ok = isinstance(p.value._peek, list) and len(p.value._peek) == 1 and p.value._peek[0] is st["xs"][0] and p.value.dialect == ("chosen", p.value._peek)
            else:
                ok = p.value.dialect is None
            U.prove("C13.init.modes[%s]#p%d" % (mode, p.index), "force_dialect_check with a dialect raises; a supplied dialect is used verbatim without peeking; otherwise dialect = _choose_dialect(peek(checklines))",
                    [], z3.BoolVal(bool(ok)), {}, replay=replay)


def unit_reuse(U):
    """create_db re-uses the already peeked iterator (pipeline): file opened once per pass, every feature line imported once in order"""
    for kinds in ("F", "FF", "FFF", "FDFCF", "FFFF"):
        for checklines in (0, 1, 2, 10):
            if not U.thorough and kinds == "FFFF" and checklines not in (1, 2):
                continue
            it = Interp()
            run = PL.run_create_db(it, kinds, checklines)
            base = "C13.create_db.reuse[%s,checklines=%d]" % (kinds, checklines)

            def replay(m, kinds=kinds, checklines=checklines):
                return PL.native_directives_replay(kinds, checklines)
            for p in U.explore(run, it):
                if p.kind != "return":
                    U.prove(base + ".noraise#p%d" % p.index, "create_db raises nothing (got %r)" % (p.value,), p.pc, z3.BoolVal(False), {}, replay=replay)
                    continue
                st = p.ctx.stash
                env, tables = st["env"], st["tables"]
                nfeat = kinds.count("F")
                made = env["made"]
                opens = len(env["opened"])
                # rows inserted: one per feature line, in order, each the feature object parsed in the full pass
                rows = tables.feature_rows
                full = made[-nfeat:]
                ok_rows = len(rows) == nfeat and all(IM.zs(r[0]) is IM.zs(f.id) or mkstr(r[0]) is f.id for r, f in zip(rows, full))
                U.prove(base + ".once#p%d" % p.index, "every feature line is imported exactly once, in file order (peeked items are neither dropped nor duplicated)", [], z3.BoolVal(bool(ok_rows)), {}, replay=replay)
                U.prove(base + ".passes#p%d" % p.index, "the input is opened exactly twice: one peek pass, one import pass (the peeked iterator is re-used, not re-created)", [],
                        z3.BoolVal(opens == 2 and len(made) == min(checklines + 1, nfeat) + nfeat), {}, replay=replay)


def unit_inspect(U):
    it = Interp()
    for k in (0, 1, 3):
        for lim in ("none", "sym"):
            L = z3.Int("limit")

            def run(ctx, k=k, lim=lim):
                xs = [blank_feature(featuretype=ft, attributes={"ID": ["x"]}) for ft in ["gene", "exon", "gene"][:k]]

                class D(object):
                    _pyvc_model = True

                    def __iter__(self):
                        return iter(xs)
                it.contracts[IT.DataIterator] = lambda interp, a, kk: D()
                if lim == "sym":
                    ctx.assume(L >= 1)
                return it.call(INS.inspect, ["<data>"], {"look_for": ["featuretype", "feature_count"], "limit": None if lim == "none" else SInt(L), "verbose": False})
            for p in U.explore(run, it):
                ok = p.kind == "return" and isinstance(p.value, dict)
                goal = z3.BoolVal(False)
                if ok:
                    fc = p.value.get("feature_count")
                    fts = p.value.get("featuretype", {})
                    want = ["gene", "exon", "gene"][:k]
                    if lim == "none":
                        goal = z3.BoolVal(fc == k and fts == {t: want.count(t) for t in set(want)})
                    else:
                        conds = []
                        for j in range(0, k + 1):
                            wj = z3.If(L < k, L, z3.IntVal(k)) == j
                            conds.append(z3.Implies(wj, z3.BoolVal(fc == j and fts == {t: want[:j].count(t) for t in set(want[:j])})))
                        goal = z3.And(*conds)
                U.prove("C13.inspect.count[len=%d,limit=%s]#p%d" % (k, lim, p.index), "feature_count == number of items iterated == min(limit, n) (all when no limit); counters are exact over those items",
                        p.pc, goal, {"limit": L})


def unit_init_state(U, prefix="C13"):
    """every iterator starts with its OWN empty directives list: nothing is shared between iterator objects (a shared
    default would carry the directives of the last file parsed into a database built from Feature objects)"""
    it = Interp()

    def run(ctx):
        it.contracts[H._choose_dialect] = lambda interp, a, k: {"fmt": "gff3"}
        a, b = object.__new__(IT._FeatureIterator), object.__new__(IT._FeatureIterator)
        it.call(IT._BaseIterator.__init__, [a, items(1)], {})
        a.directives.append("from-a")
        it.call(IT._BaseIterator.__init__, [b, items(1)], {})
        return a, b

    def replay(m):
        import tempfile, os
        d = tempfile.mkdtemp()
        try:
            fn = os.path.join(d, "a.gff")
            open(fn, "w").write("##gff-version 3\n##marker old\nchr1\t.\tgene\t1\t5\t.\t+\t.\tID=a\n")
            list(IT.DataIterator(fn))
            feats = [F.Feature(seqid="c", featuretype="gene", start=1, end=5, attributes={"ID": ["n"]})]
            di = IT.DataIterator(feats)
            list(di)
            db = gffutils.create_db(feats, ":memory:")
            obs = {"DataIterator(features).directives": list(di.directives), "create_db(features).directives": list(db.directives)}
            # two files: read A completely, then read B; A must still report its own directives
            fn2 = os.path.join(d, "b.gff")
            open(fn2, "w").write("##gff-version 3\n##marker other\nchr2\t.\tgene\t1\t5\t.\t+\t.\tID=b\n")
            ia = IT.DataIterator(fn)
            list(ia)
            ib = IT.DataIterator(fn2)
            list(ib)
            two = {"A.directives after reading B": list(ia.directives), "B.directives": list(ib.directives)}
            exp2 = {"A.directives after reading B": ["gff-version 3", "marker old"], "B.directives": ["gff-version 3", "marker other"]}
            return {"inputs": "parse a file with directives, then iterate / import Feature objects; read two files one after the other", "expected": [{k: [] for k in obs}, exp2], "observed": [obs, two],
                    "violates": any(v for v in obs.values()) or two != exp2}
        finally:
            import shutil
            shutil.rmtree(d, ignore_errors=True)
    for p in U.explore(run, it):
        ok = p.kind == "return"
        if ok:
            a, b = p.value
            ok = isinstance(a.directives, list) and isinstance(b.directives, list) and a.directives is not b.directives and b.directives == [] and a.directives == ["from-a"]
        U.prove("%s.init.fresh_state#p%d" % (prefix, p.index), "a new iterator has its own empty directives list (not shared with any other iterator, not a default-argument object)", [], z3.BoolVal(bool(ok)), {}, replay=replay)


def unit_bounded_update_forms(U):
    """bounded: FeatureDB.update() fed from one-shot sources (generator, iterator, another database's query) on GFF3 and GTF
    databases, every checklines around the input length: exactly the given features are added, none lost to the look-ahead"""
    fails, cases = [], 0
    gff_base = "c\ts\tgene\t1\t900\t.\t+\t.\tID=g0\n"
    gtf_base = 'c\ts\texon\t1\t9\t.\t+\t.\tgene_id "g0"; transcript_id "t0";\n'
    n = 5
    for fmt, base in (("gff3", gff_base), ("gtf", gtf_base)):
        for form in ("list", "generator", "iterator", "DataIterator"):
            for cl in (0, 1, n - 1, n, n + 2):
                cases += 1
                import warnings
                with warnings.catch_warnings():
                    warnings.simplefilter("ignore")
                    db = gffutils.create_db(base, ":memory:", from_string=True, disable_infer_genes=True, disable_infer_transcripts=True) if fmt == "gtf" else gffutils.create_db(base, ":memory:", from_string=True)
                    n0 = db.count_features_of_type()
                    if fmt == "gff3":
                        new = [F.Feature(seqid="c", source="s", featuretype="mRNA", start=10 * i + 1, end=10 * i + 5, strand="+", attributes={"ID": ["m%d" % i], "Parent": ["g0"]}) for i in range(n)]
                    else:
                        dl = db.dialect
                        new = [F.Feature(seqid="c", source="s", featuretype="CDS", start=10 * i + 1, end=10 * i + 5, strand="+", attributes={"gene_id": ["g0"], "transcript_id": ["t0"], "ID": ["c%d" % i]}, dialect=dl) for i in range(n)]
                    src = {"list": lambda: list(new), "generator": lambda: (f for f in new), "iterator": lambda: iter(new), "DataIterator": lambda: IT.DataIterator(iter(new), checklines=cl)}[form]()
                    kw = dict(disable_infer_genes=True, disable_infer_transcripts=True) if fmt == "gtf" else {}
                    try:
                        db.update(src, checklines=cl, make_backup=False, merge_strategy="create_unique", **kw)
                        got = db.count_features_of_type() - n0
                    except Exception as ex:
                        got = "raised %r" % (ex,)
                if got != n:
                    fails.append({"case": {"database": fmt, "source": form, "checklines": cl, "features given": n}, "expected": n, "observed": got})
    U.bounded_result("C13.bounded.update_forms", "update() adds exactly the features it is given, whatever form they come in (one-shot sources included) and whatever checklines is",
                     "GFF3 and GTF databases x {list, generator, iterator, DataIterator} x checklines in {0, 1, n-1, n, n+2}, n = %d" % n, cases, fails, distinct=cases)


UNITS = [("bounded.update_forms", unit_bounded_update_forms), ("peek", unit_peek), ("iter", unit_iter), ("dispatch", unit_dispatch), ("init", unit_init_modes), ("init_state", unit_init_state), ("reuse", unit_reuse), ("inspect", unit_inspect)]
try:
    from standins import C13 as _S
    UNITS = UNITS + list(_S.UNITS)
except ImportError:
    pass


def replay_file(doc):
    return {"error": "re-run ./check C13 to regenerate and replay this obligation", "violates": None, "stored": doc.get("inputs")}
