"""C01 - import fidelity: every input line is stored once and comes back unchanged."""
import re
import z3

import gffutils
import gffutils.create as C
import gffutils.feature as F
import gffutils.helpers as H
import gffutils.interface as I
import gffutils.bins as B
import gffutils.parser as P
from gffutils import constants
from gffutils.attributes import Attributes

from pyvc.core import SInt, SStr, SSeq, Val, Lit, IntLit, Undecided, Ctx, mkstr
from pyvc.interp import Interp
from pyvc import ghostdb, sqlmodel as Q
from contracts.common import bins_contract, blank_feature
from contracts import importer as IM
from contracts import pipeline as PL
from contracts import spec_bins as SB
from contracts.qharness import blank_db
from props.C04 import _streq

LEVEL = "other"
EXPLANATION = ("C01 is a LEMMA over contracts proved elsewhere plus the plumbing proved here (z3 / structural, per path): (a) Feature.astuple() "
               "lists the 12 columns in the order of constants._keys, which is the column list of _INSERT (12 placeholders) and of _SELECT; "
               "(b) the importer's loop body stores exactly one row per feature - the INSERT's 12 arguments are astuple() of that feature "
               "(GFF3 and GTF importers, no collision); (c) end-to-end symbolic execution of the real create_db on ghost files: rows are "
               "inserted in input order, one per feature line; (d) _finalize persists the iterator's dialect, FeatureDB.__init__ reads it "
               "back (C10 units), all_features() without arguments issues a plain scan (C11; rowid order assumed); (e) a stored row comes "
               "back through _feature_returner/Feature.__init__ with the same eight columns, the attributes and extra decoded from their JSON "
               "text (identity under the simplejson contract, C17) and the database's dialect / keep_order attached; (f) Feature.__unicode__ "
               "emits the eight columns ('.' for None), the reconstructed attribute column (C07) and the extra columns.  The byte-identical "
               "print/parse step itself is C07/C08.  BOUNDED (not counted as proved): whole files in all 48 dialects through the real "
               "create_db, reopen and re-import.  Known finding: dialect facts first observable after the inspected window are lost.")
TRUSTED = ["T1", "T3", "contracts/pipeline.py"]
ASSUMPTIONS = ["A-S3 a scan without ORDER BY returns rows in rowid = insertion order", "A-S2 committed data are what a new connection reads", "A-J JSON round trip (C17)",
               "C07: parse/print of one line in a consistent dialect; C13/C14: the iterator yields one feature per feature line, in order"]
PRECONDITIONS = ["every dialect fact of the file (key order, repeated keys, separators) is observable inside the inspected window (otherwise: known finding)"]
FUNCTIONS = ["gffutils.helpers:_jsonify", "gffutils.helpers:_unjsonify", "gffutils.feature:Feature.astuple", "gffutils.create:_DBCreator._insert", "gffutils.create:_GFFDBCreator._populate_from_lines", "gffutils.create:_GTFDBCreator._populate_from_lines",
             "gffutils.interface:FeatureDB._feature_returner", "gffutils.feature:Feature.__init__", "gffutils.feature:Feature.__unicode__", "gffutils.create:create_db"]


def unit_columns(U):
    it = Interp()
    it.contracts[B.bins] = bins_contract
    IM.install_json(it)

    def run(ctx):
        f, fv = IM.sym_feature("f", {"ID": [IM.sval("f.ID")[0]]})
        f.id = IM.sval("f.id")[0]
        f.extra = [IM.sval("f.x0")[0]]
        ctx.stash["f"] = f
        return it.call(F.Feature.astuple, [f], {})

    def replay(m):
        f = F.Feature(seqid="c", source="s", featuretype="t", start=3, end=9, score="1", strand="-", frame="2", attributes={"ID": ["a"]}, extra=["x"])
        f.id = "a"
        t = f.astuple()
        exp = ("a", "c", "s", "t", 3, 9, "1", "-", "2", H._jsonify(f.attributes), H._jsonify(["x"]), f.calc_bin())
        return {"expected": exp, "observed": t, "violates": t != exp or constants._keys != ["id", "seqid", "source", "featuretype", "start", "end", "score", "strand", "frame", "attributes", "extra", "bin"]}
    for p in U.explore(run, it):
        ok = p.kind == "return" and isinstance(p.value, tuple) and len(p.value) == 12 == len(constants._keys)
        goal = z3.BoolVal(False)
        if ok:
            f, t = p.ctx.stash["f"], p.value
            conds = []
            for i, k in enumerate(constants._keys):
                if k in ("attributes", "extra"):
                    try:
                        conds.append(z3.BoolVal(IM.json_unhole(t[i]) is getattr(f, k)))
                    except Undecided:
                        conds.append(z3.BoolVal(False))
                elif k == "bin":
                    conds.append(t[i].e == SB.bin1(f.start.e, f.end.e, "gff") if isinstance(t[i], SInt) else z3.BoolVal(False))
                elif k in ("start", "end"):
                    conds.append(t[i].e == getattr(f, k).e if isinstance(t[i], SInt) else z3.BoolVal(False))
                else:
                    conds.append(_streq(t[i], getattr(f, k)))
            goal = z3.And(*conds)
        U.prove("C01.astuple.order#p%d" % p.index, "astuple()[i] is the value of column constants._keys[i] (JSON text of attributes/extra, calc_bin() for bin)", p.pc, goal, {}, replay=replay)
    cols = re.match(r"INSERT INTO features \((.*?)\) VALUES \((.*?)\)$", constants._INSERT)
    okins = bool(cols) and [c.strip() for c in cols.group(1).split(",")] == constants._keys and cols.group(2).split(",") == ["?"] * 12
    oksel = constants._SELECT.startswith("SELECT " + ", ".join(constants._keys) + ", features.rowid as file_order FROM features")
    U.prove("C01.insert.columns", "_INSERT lists the 12 columns of _keys with 12 placeholders; _SELECT projects the same columns plus rowid", [], z3.BoolVal(bool(okins and oksel)), {}, replay=replay)


def unit_step_row(U):
    """the importer's loop body stores one row per feature: astuple() of that feature"""
    for cls, name in ((C._GFFDBCreator, "gff"), (C._GTFDBCreator, "gtf")):
        it = Interp()
        it.contracts[B.bins] = bins_contract
        IM.install_json(it)
        IM.GhostFS().install(it)

        def run(ctx, cls=cls):
            attrs = {"ID": [IM.sval("f.ID")[0]], "gene_id": [IM.sval("f.gene_id")[0]], "transcript_id": [IM.sval("f.transcript_id")[0]]}
            f, fv = IM.sym_feature("f", attrs)
            f.extra = [IM.sval("f.x0")[0]]
            cr = IM.blank_creator(cls, ghostdb.GhostConn(), id_spec="ID", counters=IM.SymMap("cnt"))
            ctx.stash["f"] = f
            it.call(cls._populate_from_lines, [cr, [f]], {})

        def replay(m, name=name):
            f1 = F.Feature(seqid="c", source="s", featuretype="exon", start=3, end=9, score="1", strand="-", frame="2", attributes={"ID": ["a"], "gene_id": ["g"], "transcript_id": ["t"]}, extra=["x", ""])
            d = constants.dialect if name == "gff" else dict(constants.dialect, fmt="gtf")
            db = gffutils.create_db([f1], ":memory:", id_spec="ID", dialect=d, disable_infer_genes=True, disable_infer_transcripts=True)
            rows = list(db.conn.execute("SELECT * FROM features"))
            exp = ("a", "c", "s", "exon", 3, 9, "1", "-", "2", H._jsonify(f1.attributes), H._jsonify(["x", ""]), f1.calc_bin())
            return {"expected": exp, "observed": [tuple(r) for r in rows], "violates": [tuple(r) for r in rows] != [exp]}
        for p in U.explore(run, it):
            ok = p.kind == "return"
            goal = z3.BoolVal(False)
            if ok:
                f = p.ctx.stash["f"]
                effs = IM.classify(p.ctx.effects)
                ins = [e for e in effs if e.table == "features" and e.kind in ("insert", "update", "delete")]
                if len(ins) == 1 and ins[0].kind == "insert" and " ".join(str(ins[0].raw).split()) == constants._INSERT and len(ins[0].args) == 12:
                    a = list(ins[0].args)
                    conds = [_streq(a[0], f.id)]
                    for i, k in enumerate(constants._keys):
                        if k in ("attributes", "extra"):
                            try:
                                conds.append(z3.BoolVal(IM.json_unhole(a[i]) is getattr(f, k)))
                            except Undecided:
                                conds.append(z3.BoolVal(False))
                        elif k in ("start", "end"):
                            conds.append(a[i].e == getattr(f, k).e if isinstance(a[i], SInt) else z3.BoolVal(False))
                        elif k == "bin":
                            conds.append(a[i].e == SB.bin1(f.start.e, f.end.e, "gff") if isinstance(a[i], SInt) else z3.BoolVal(False))
                        else:
                            conds.append(_streq(a[i], getattr(f, k)))
                    goal = z3.And(*conds)
            U.prove("C01.%s.step.row#p%d" % (name, p.index), "the loop body stores exactly one row for the feature: a plain INSERT (constants._INSERT) whose 12 arguments are the feature's astuple()", p.pc, goal, {}, replay=replay)


def unit_order(U):
    """pipeline: rows are inserted in input order, one per feature line"""
    for kinds in ("F", "FF", "FDF", "FCFBF", "FFFX", "FFF"):
        for checklines in (0, 1, 10):
            it = Interp()
            run = PL.run_create_db(it, kinds, checklines)
            for p in U.explore(run, it):
                ok = p.kind == "return"
                if ok:
                    st = p.ctx.stash
                    n = kinds.split("X")[0].count("F")
                    rows, made = st["tables"].feature_rows, st["env"]["made"]
                    full = made[-n:] if n else []
                    lines = [ln for ln, (k, v, s) in zip(st["lines"], st["info"]) if k == "F"][:n]
                    ok = len(rows) == n and all(mkstr(r[0]) is f.id for r, f in zip(rows, full)) and all(getattr(f, "_line", None) is not None for f in full)
                    # each stored feature was parsed from the i-th feature line (after rstrip of the line ending)
                    ok = ok and all(SStr.of(f._line).atoms[:1] == SStr.of(ln).atoms[:1] for f, ln in zip(full, lines))
                U.prove("C01.create_db.order[%s,checklines=%d]#p%d" % (kinds, checklines, p.index),
                        "create_db stores one row per feature line, in input order, each parsed from that line (lines at or after ##FASTA excluded)", [], z3.BoolVal(bool(ok)), {},
                        replay=lambda m, kinds=kinds, checklines=checklines: PL.native_directives_replay(kinds, checklines))


def unit_returner(U):
    """a stored row comes back as a Feature with the same columns, decoded JSON, database dialect"""
    it = Interp()
    it.contracts[B.bins] = bins_contract
    IM.install_json(it)
    for start_null, sort_values in ((False, False), (True, False), (False, True)):
        def run(ctx, start_null=start_null, sort_values=sort_values):
            attrs = object.__new__(Attributes)
            attrs._d = {"ID": [IM.sval("r.ID")[0]], "Note": [IM.sval("r.Note")[0], IM.sval("r.Note2")[0]]}
            extra = [IM.sval("r.x0")[0]]
            row, rv = ghostdb.feature_row(ctx, "row", start_null=start_null, end_null=start_null)
            row.values[row.cols.index("attributes")] = IM.json_hole(attrs)
            row.values[row.cols.index("extra")] = IM.json_hole(extra)
            db = blank_db()
            db.dialect = {"fmt": "gff3", "marker": 1}
            db.keep_order = True
            db.sort_attribute_values = sort_values
            ctx.stash.update(row=row, attrs=attrs, extra=extra, db=db, orig={k: list(v) for k, v in attrs._d.items()})
            return it.call(I.FeatureDB._feature_returner, [db], dict((k, row[k]) for k in row.keys()))

        def replay(m, start_null=start_null, sort_values=sort_values):
            f = F.Feature(seqid="c", source="s", featuretype="t", start="." if start_null else 3, end="." if start_null else 9, score="1", strand="-", frame="2",
                          attributes={"ID": ["a"], "Note": ["x y", "z", "m"]}, extra=["e1", ""])
            db = gffutils.create_db([f], ":memory:", keep_order=True, sort_attribute_values=sort_values)
            g = list(db.all_features())[0]
            bad = any(getattr(f, k) != getattr(g, k) for k in constants._gffkeys[:-1]) or dict(g.attributes) != dict(f.attributes) or g.extra != f.extra or g.dialect != db.dialect or not g.keep_order
            return {"expected": str(f), "observed": str(g), "violates": bad}
        for p in U.explore(run, it):
            ok = p.kind == "return" and isinstance(p.value, F.Feature)
            goal = z3.BoolVal(False)
            if ok:
                st, g = p.ctx.stash, p.value
                row = st["row"]
                conds = [_streq(getattr(g, c), row[c]) for c in ("seqid", "source", "featuretype", "score", "strand", "frame", "id")]
                if start_null:
                    conds.append(z3.BoolVal(g.start is None and g.end is None))
                else:
                    conds.append(z3.And(g.start.e == row["start"].e, g.end.e == row["end"].e) if isinstance(g.start, SInt) and isinstance(g.end, SInt) else z3.BoolVal(False))
                conds.append(z3.BoolVal(isinstance(g.attributes, Attributes) and list(g.attributes._d.keys()) == ["ID", "Note"] and all(a is b for k in g.attributes._d for a, b in zip(g.attributes._d[k], st["orig"][k]))
                                        and len(g.attributes._d["Note"]) == 2))
                conds.append(z3.BoolVal(g.extra is st["extra"] or (isinstance(g.extra, list) and len(g.extra) == 1 and g.extra[0] is st["extra"][0])))
                conds.append(z3.BoolVal(g.dialect is st["db"].dialect and g.keep_order is True and g.file_order is row["file_order"]))
                goal = z3.And(*conds)
            U.prove("C01.returner[%s%s]#p%d" % ("null-coords" if start_null else "coords", ",sort_attribute_values" if sort_values else "", p.index),
                    "row -> Feature: same eight columns (NULL coordinates -> None), attributes/extra decoded from their JSON text with keys and values in order (also under sort_attribute_values, which affects printing only), the database's dialect and keep_order attached", p.pc, goal, {}, replay=replay)


def unit_unicode(U):
    """Feature.__unicode__: eight columns ('.' for None), reconstructed attributes, extra columns"""
    it = Interp()
    rec = z3.String("reconstructed")
    for coords, nextra in ((True, 0), (False, 0), (True, 2), (True, 1)):
        def run(ctx, coords=coords, nextra=nextra):
            f, fv = IM.sym_feature("f", {"ID": [IM.sval("f.ID")[0]]})
            if not coords:
                f.start = f.end = None
            f.extra = [IM.sval("f.x%d" % i, excl=frozenset())[0] for i in range(nextra)]
            calls = []
            it.contracts[P._reconstruct] = lambda interp, a, k: (calls.append((a, k)), SStr([Val(rec)]))[1]
            ctx.stash.update(f=f, calls=calls)
            return it.call(F.Feature.__unicode__, [f], {})

        def replay(m, coords=coords, nextra=nextra):
            f = F.Feature(seqid="c", source="s", featuretype="t", start=3 if coords else ".", end=9 if coords else ".", score="1", strand="-", frame="2", attributes={"ID": ["a"]}, extra=["e%d" % i for i in range(nextra)])
            exp = "\t".join(["c", "s", "t", "3" if coords else ".", "9" if coords else ".", "1", "-", "2", "ID=a"] + (["\t".join(f.extra)] if nextra else []))
            return {"expected": exp, "observed": str(f), "violates": str(f) != exp}
        for p in U.explore(run, it):
            ok = p.kind == "return"
            goal = z3.BoolVal(False)
            if ok:
                f, calls = p.ctx.stash["f"], p.ctx.stash["calls"]
                parts = [f.seqid, "\t", f.source, "\t", f.featuretype, "\t", SStr([IntLit(f.start.e)]) if coords else ".", "\t", SStr([IntLit(f.end.e)]) if coords else ".", "\t",
                         f.score, "\t", f.strand, "\t", f.frame, "\t", SStr([Val(rec)])]
                for i, x in enumerate(f.extra):
                    parts += ["\t", x]
                want = it.models.concat(parts) if False else None
                atoms = []
                for x in parts:
                    atoms.extend(SStr.of(x).atoms)
                want = SStr(atoms)
                okcall = len(calls) == 1 and calls[0][0][0] is f.attributes and calls[0][0][1] is f.dialect and calls[0][1] == {"keep_order": f.keep_order, "sort_attribute_values": f.sort_attribute_values}
                goal = z3.And(_streq(p.value, want), z3.BoolVal(bool(okcall)))
            U.prove("C01.unicode.cols[coords=%s,extra=%d]#p%d" % (coords, nextra, p.index),
                    "str(feature) == the eight columns joined by tabs ('.' for None), the attribute column reconstructed from (attributes, dialect, keep_order, sort_attribute_values), then the extra columns", p.pc, goal, {}, replay=replay)


def unit_bounded_positions(U):
    """bounded: the same line text is stored the same way wherever it sits in the file - inside the window the dialect is
    inferred from (the first checklines + 1 feature lines) or after it"""
    fails, cases = [], 0
    texts = ["ID=%s;Note=kinase, putative", "ID=%s;Note=a,b;Name=x y", 'gene_id "%s"; note "a, b";', "ID=%s;Dbxref=X:1, Y:2;Alias=p%%2Cq"]
    for t in texts:
        for checklines in (1, 3):
            n = checklines + 4
            lines = ["c\ts\tgene\t%d\t%d\t.\t+\t.\t%s" % (10 * i + 1, 10 * i + 5, t % ("k%d" % i)) for i in range(n)]
            cases += 1
            try:
                import warnings
                with warnings.catch_warnings():
                    warnings.simplefilter("ignore")
                    db = gffutils.create_db("\n".join(lines) + "\n", ":memory:", from_string=True, checklines=checklines, keep_order=True,
                                            disable_infer_genes=True, disable_infer_transcripts=True, id_spec=None)
                feats = list(db.all_features())
                shapes = []
                for f in feats:
                    d = {k: list(v) for k, v in f.attributes.items() if k not in ("ID", "gene_id")}
                    shapes.append(d)
                printed = [str(f).split("\t")[8] for f in feats]
                norm = [p_.replace(f.attributes.get("ID", f.attributes.get("gene_id", ["?"]))[0], "@") for p_, f in zip(printed, feats)]
                if len(feats) != n or any(x != shapes[0] for x in shapes) or any(x != norm[0] for x in norm):
                    fails.append({"case": {"attribute text": t, "checklines": checklines, "lines": n}, "expected": "every line stored and printed alike",
                                  "observed": {"values per line": shapes, "printed": printed}})
            except Exception as ex:
                fails.append({"case": {"attribute text": t, "checklines": checklines}, "expected": "import succeeds", "observed": repr(ex)})
    U.bounded_result("C01.bounded.positions", "identical attribute text is stored (values) and printed identically before and after the dialect-inspection window",
                     "%d attribute texts (comma followed by blank, multi-values, GTF) x checklines in {1, 3}, checklines + 4 lines each" % len(texts), cases, fails, distinct=cases)


def unit_bounded_empty_elements(U):
    """Bounded: comma lists with EMPTY elements (a doubled, leading or trailing comma) are stored as written: the stored
    feature has exactly the elements of the line and prints the line byte for byte, from a file database, a reopened one, a
    memory database and a re-import of the printed lines (GFF3 text; also as the only multi-valued line of the file)"""
    import tempfile, os, shutil
    fails, cases = [], 0
    attrs = ["ID=g1;Alias=a1,,a3", "ID=g2;Dbxref=X:1,X:2,", "ID=g3;Ontology_term=,GO:1", "ID=g4;Note=,", "ID=g5;Alias=a,b;Dbxref=,,", "ID=g6;Name=plain"]
    exp_vals = {"g1": ("Alias", ["a1", "", "a3"]), "g2": ("Dbxref", ["X:1", "X:2", ""]), "g3": ("Ontology_term", ["", "GO:1"]), "g4": ("Note", ["", ""]), "g5": ("Dbxref", ["", "", ""]), "g6": ("Name", ["plain"])}
    for picks in (range(6), (0, 5), (1, 5), (2,), (3, 4)):
        lines = ["c\ts\tgene\t%d\t%d\t.\t+\t.\t%s" % (10 * i + 1, 10 * i + 5, attrs[i]) for i in picks]
        text = "\n".join(lines) + "\n"
        d = tempfile.mkdtemp()
        try:
            for route in ("file", "reopened", "memory", "re-import of the printed lines"):
                cases += 1
                try:
                    if route == "memory":
                        db = gffutils.create_db(text, ":memory:", from_string=True)
                    else:
                        db = gffutils.create_db(text, os.path.join(d, "e%d.db" % cases), from_string=True)
                        if route == "reopened":
                            db = gffutils.FeatureDB(os.path.join(d, "e%d.db" % cases))
                        elif route != "file":
                            db = gffutils.create_db("\n".join(str(f) for f in db.all_features(order_by="start")) + "\n", ":memory:", from_string=True)
                    got = [str(f) for f in db.all_features(order_by="start")]
                    vals = {f.id: list(f.attributes[exp_vals[f.id][0]]) for f in db.all_features()}
                    want = {"g%d" % (i + 1): exp_vals["g%d" % (i + 1)][1] for i in picks}
                    if got != lines or vals != want:
                        fails.append({"case": {"text": text, "route": route}, "expected": {"lines": lines, "values": want}, "observed": {"lines": got, "values": vals}})
                except Exception as e:
                    fails.append({"case": {"text": text, "route": route}, "expected": "imported", "observed": repr(e)})
        finally:
            shutil.rmtree(d, ignore_errors=True)
    U.bounded_result("C01.bounded.empty_list_elements", "comma lists with empty elements are stored and printed as written", "5 files of 1-6 GFF3 lines x file / reopened / memory / re-import", cases, fails)

def unit_dep_json(U):
    """the contract of helpers._jsonify / _unjsonify that the returner and step_row units ASSUME (install_json) is discharged
    here as well, on the real functions: compact dumps, Attributes(loads(text)), and a fresh decode on every call - so a
    stored row read twice gives two Features that share no attribute container (same obligations as C17.json, shared)"""
    from props import C17
    C17.unit_json(U, prefix="C01.dep")


UNITS = [("dep.json", unit_dep_json), ("bounded.empty_elements", unit_bounded_empty_elements), ("bounded.positions", unit_bounded_positions), ("columns", unit_columns), ("step_row", unit_step_row), ("order", unit_order), ("returner", unit_returner), ("unicode", unit_unicode)]
try:
    from standins import C01 as _S
    UNITS = UNITS + list(_S.UNITS)
except ImportError:
    pass


def replay_known(entry):
    w = entry.get("replay")
    if w == "late-dialect-facts":
        text = "chr1\t.\tgene\t1\t5\t.\t+\t.\tID=f0x\nchr1\t.\tgene\t1\t5\t.\t+\t.\tID=f1x;Name=n1;Name=m;Note=some text\n"
        import tempfile, os
        fd, fn = tempfile.mkstemp()
        os.write(fd, text.encode())
        os.close(fd)
        try:
            db = gffutils.create_db(fn, ":memory:", checklines=0, keep_order=True)
            out = [str(f) for f in db.all_features()]
            return out != text.rstrip("\n").split("\n")
        finally:
            os.unlink(fn)
    if w == "key-order-first-seen":
        lines = ["chr1\tsrc\tgene\t1\t5\t.\t+\t.\tID=a;Parent=p", "chr1\tsrc\tgene\t1\t5\t.\t+\t.\tID=b;Note=n;Parent=p"]
        feats = [F.feature_from_line(l) for l in lines]
        db = gffutils.create_db(feats, ":memory:", keep_order=True)
        return [str(f) for f in db.all_features()] != lines
    return None


def replay_file(doc):
    return {"error": "re-run ./check C01 to regenerate and replay this obligation", "violates": None, "stored": doc.get("inputs")}
