"""C09 - dialect inference recovers the dialect the input was written in."""
import itertools
import z3

import gffutils
import gffutils.parser as P
import gffutils.helpers as H
import gffutils.feature as F
from gffutils import constants

from pyvc.core import SInt, SStr, Val, Lit, Undecided, mkstr
from pyvc.interp import Interp
from contracts import attrspec as A
from props.C07 import _native_enc

LEVEL = "other"
EXPLANATION = ("PROVED: (1) per line - for each of the 48 consistent dialects and every attribute shape of <= 3 keys x <= 3 values (contents "
               "arbitrary within the grammar), the real _split_keyvals / helpers.infer_dialect run on the specification writer's line "
               "return a dialect that agrees with the writing dialect on every OBSERVABLE key (format gff3/gtf, field and key/value "
               "separators, value quoting, trailing semicolon, repeated keys, multi-value separator) and whose order is the first-seen "
               "key order; (2) the vote - helpers._choose_dialect executed symbolically for every pattern of k <= 3 (thorough 4) peeked "
               "features voting for one of two values of a dialect key, with SYMBOLIC non-negative attribute counts as weights: the "
               "chosen value is the one with the larger total weight, ties go to the value seen first, order is the first-seen "
               "concatenation of the features' keys, no feature => the default dialect; (3) the vote for ANY number of lines by the fold rule "
               "(C09.fold.tally / .select / .order): one step of the tally loop from an arbitrary tally for an arbitrary next line, the "
               "selection from an arbitrary tally, one step of the key-order loop from an arbitrary list of keys seen so far.  Window (peek returns the first checklines+1 "
               "features), verbatim use of a supplied dialect and dialect injection into every yielded feature are C13 obligations; "
               "format routing is C03.create_db.route / C10.update.route.  BOUNDED (not counted as proved): whole files through "
               "DataIterator / create_db / FeatureDB for all entry points, window positions and mixtures.")
TRUSTED = ["T1 strings with holes; symbolic stable sort by branching; the fold rule for the loops of _choose_dialect", "contracts/attrspec.py"]
ASSUMPTIONS = ["A-P sorted() is stable, also with reverse=True; dict order is insertion order", "A-R, A-U as in C07"]
PRECONDITIONS = ["a dialect key is asserted only when the line makes it observable (>= 2 attribute parts for the field separator, a multi-valued key for repeated keys, ...)"]
FUNCTIONS = ["gffutils.parser:_split_keyvals", "gffutils.helpers:infer_dialect", "gffutils.helpers:_choose_dialect"]


def native_dialect(dname, D, shape):
    items = [(A.KEYS[ai], ["v%d%d" % (ai, j) for j in range(n)]) for ai, n in enumerate(shape)]
    attr = _native_enc(items, D)
    got = H.infer_dialect(attr)
    obs = sorted(k for k in ("trailing semicolon", "keyval separator", "quoted GFF2 values", "fmt", "field separator", "repeated keys") if k in _observable_native(D, items))
    bad = {k: (got[k], D[k]) for k in obs if got[k] != D[k]}
    return {"inputs": {"dialect": dname, "attributes": attr}, "observed": bad, "violates": bool(bad)}


def _observable_native(D, items):
    class V(object):
        pass
    return A.observable(D, [(k, [V() for _ in vs]) for k, vs in items])


def _unit_line(styles):
    def unit(U):
        for dname, D in A.dialects():
            if dname.split("|")[0] not in styles:
                continue
            for shape in A.shapes(U.thorough):
                it = Interp()
                A.install(it)

                def run(ctx, D=D, shape=shape):
                    items = A.make_items(shape, D, ctx)
                    s = A.enc(items, D)
                    ctx.stash.update(items=items)
                    return it.call(H.infer_dialect, [s], {})
                base = "C09.split.dialect[%s,%s]" % (dname, "x".join(map(str, shape)))
                replay = lambda m, dname=dname, D=D, shape=shape: native_dialect(dname, D, shape)
                for p in U.explore(run, it):
                    if p.kind != "return":
                        U.prove(base + ".noraise#p%d" % p.index, "inference raises nothing (got %r)" % (p.value,), p.pc, z3.BoolVal(False), {}, replay=replay)
                        continue
                    items = p.ctx.stash["items"]
                    d2 = p.value
                    obs = A.observable(D, items)
                    okd = isinstance(d2, dict) and set(d2) == set(constants.dialect) and all(d2[k] == D[k] for k in obs)
                    first_seen = []
                    for k, vs in items:
                        if k not in first_seen:
                            first_seen.append(k)
                    got_order = []
                    for k in (d2.get("order", []) if isinstance(d2, dict) else []):
                        if k not in got_order:
                            got_order.append(k)
                    U.prove(base + "#p%d" % p.index, "the inferred dialect has the nine dialect keys, equals the writing dialect on every observable key, and its order lists the keys in first-seen order", [],
                            z3.BoolVal(bool(okd and got_order == first_seen)), {}, replay=replay)
    return unit


class Peeked(object):
    """a peeked feature for the vote: a dialect and an attribute mapping with a symbolic size"""
    _pyvc_model = True

    def __init__(self, dialect, keys, weight):
        self.dialect = dialect

        class At(object):
            _pyvc_model = True
            _pyvc_len = weight

            def keys(s):
                return list(keys)
        self.attributes = At()


def unit_vote(U):
    K = 4 if U.thorough else 3
    candidates = {"field separator": (";", "; "), "fmt": ("gff3", "gtf"), "trailing semicolon": (False, True)}
    for key, (va, vb) in candidates.items():
        for k in range(1, K + 1):
            for pattern in itertools.product((0, 1), repeat=k):
                if key != "field separator" and (k > 3 or (k == 3 and not U.thorough and pattern[0] == 1)):
                    continue
                it = Interp()
                ws = [z3.Int("w%d" % i) for i in range(k)]

                def run(ctx, key=key, va=va, vb=vb, pattern=pattern, ws=ws):
                    feats = []
                    for i, bit in enumerate(pattern):
                        ctx.assume(ws[i] >= 0)
                        d = dict(constants.dialect)
                        d[key] = vb if bit else va
                        d["order"] = ["k%d" % i]
                        feats.append(Peeked(d, ["k%d" % i, "shared"], SInt(ws[i])))
                    return it.call(H._choose_dialect, [feats], {})
                base = "C09.choose.vote[%s,%s]" % (key, "".join(map(str, pattern)))

                def replay(m, key=key, va=va, vb=vb, pattern=pattern):
                    feats = []
                    for i, bit in enumerate(pattern):
                        w = max(0, int(m.get("w%d" % i, 1)))
                        d = dict(constants.dialect)
                        d[key] = vb if bit else va
                        f = F.Feature(attributes={"a%d_%d" % (i, j): ["x"] for j in range(w)}, dialect=d)
                        feats.append(f)
                    got = H._choose_dialect(feats)[key]
                    ta = sum(max(0, int(m.get("w%d" % i, 1))) for i, b in enumerate(pattern) if not b)
                    tb = sum(max(0, int(m.get("w%d" % i, 1))) for i, b in enumerate(pattern) if b)
                    first = vb if pattern[0] else va
                    exp = (va if ta > tb else vb) if ta != tb else first
                    if all(pattern):
                        exp = vb
                    if not any(pattern):
                        exp = va
                    return {"inputs": {"key": key, "pattern": pattern, "weights": {k_: v for k_, v in m.items()}}, "expected": exp, "observed": got, "violates": got != exp}
                for p in U.explore(run, it, max_paths=20000):
                    ok = p.kind == "return" and isinstance(p.value, dict)
                    goal = z3.BoolVal(False)
                    if ok:
                        d = p.value
                        ta = sum([ws[i] for i, b in enumerate(pattern) if not b], z3.IntVal(0))
                        tb = sum([ws[i] for i, b in enumerate(pattern) if b], z3.IntVal(0))
                        chose_a, chose_b = z3.BoolVal(d.get(key) == va), z3.BoolVal(d.get(key) == vb)
                        if all(pattern):
                            spec = chose_b
                        elif not any(pattern):
                            spec = chose_a
                        else:
                            first_a = not pattern[0]
                            spec = z3.If(ta > tb, chose_a, z3.If(tb > ta, chose_b, chose_a if first_a else chose_b))
                        want_order = []
                        for i in range(k):
                            for kk in ("k%d" % i, "shared"):
                                if kk not in want_order:
                                    want_order.append(kk)
                        others = all(d.get(x) == constants.dialect[x] for x in constants.dialect if x not in (key, "order"))
                        goal = z3.And(spec, z3.BoolVal(d.get("order") == want_order and others and set(d) == set(constants.dialect)))
                    U.prove(base + "#p%d" % p.index, "the chosen value has the larger summed attribute count; ties go to the value seen first; other keys keep their unanimous value; order = first-seen concatenation of the attribute keys",
                            p.pc, goal, {"w%d" % i: ws[i] for i in range(k)}, replay=replay)
    it = Interp()

    def run0(ctx):
        return it.call(H._choose_dialect, [[]], {})
    for p in U.explore(run0, it):
        U.prove("C09.choose.empty#p%d" % p.index, "no peeked feature ==> the default dialect", [], z3.BoolVal(p.kind == "return" and p.value == constants.dialect), {})


def unit_vote_fold(U):
    """_choose_dialect for ANY number of peeked lines, by the fold rule.  Tally loop: the body is executed once from an
    arbitrary tally (count[key] empty / one value seen / both values seen in either first-seen order, weights arbitrary
    non-negative integers; the unanimous other keys carry an arbitrary total) for an arbitrary next line (either value,
    arbitrary attribute count): the line's attribute count is added to its value's total, a value seen for the first time
    is appended AFTER the ones seen before, nothing else changes.  Selection: from an arbitrary such tally the code after
    the loop picks the larger total, ties going to the value seen first.  Key order: the body of the inner order loop,
    from an arbitrary list of keys seen so far, appends the key iff it is not yet in the list."""
    from pyvc.core import SBool, Ctx
    from pyvc.interp import LoopExit
    from pyvc.harness import install_loop_body_hook
    candidates = {"field separator": (";", "; "), "fmt": ("gff3", "gtf"), "trailing semicolon": (False, True), "repeated keys": (False, True),
                  "keyval separator": ("=", " "), "quoted GFF2 values": (False, True)}
    if not U.thorough:
        candidates = {k: candidates[k] for k in ("field separator", "fmt", "trailing semicolon")}
    A_, B_, W_, T_ = z3.Int("A"), z3.Int("B"), z3.Int("w"), z3.Int("T")
    vars_ = {"A": A_, "B": B_, "w": W_, "T": T_}

    def mk_count(ctx, key, va, vb, shape, count=None):
        """the tally in the state `shape`, built INSIDE the object the real code created before the loop (a dict of dicts on
        the pinned tree; a dict of Counters or the like works as well: entries are set by item assignment in first-seen order)"""
        for v in (A_, B_, W_, T_):
            ctx.assume(v >= 0)
        if count is None:
            count = {k: {} for k in constants.dialect.keys()}
        if not isinstance(count, dict) or set(count.keys()) != set(constants.dialect.keys()) or not all(isinstance(x, dict) and len(x) == 0 for x in count.values()):
            raise Undecided("the tally before the loop is not an empty mapping per dialect key any more (the invariant of C09.fold is stated over that shape)")
        if shape != "empty":
            for k in count:
                if k == key:
                    continue
                dv = constants.dialect[k]
                count[k][tuple(dv) if isinstance(dv, list) else dv] = SInt(T_)
            if shape == "a":
                count[key][va] = SInt(A_)
            elif shape == "b":
                count[key][vb] = SInt(B_)
            elif shape == "ab":
                count[key][va] = SInt(A_)
                count[key][vb] = SInt(B_)
            else:
                count[key][vb] = SInt(B_)
                count[key][va] = SInt(A_)
        return count

    def native(key, va, vb, seq):
        """replay: real _choose_dialect on real features; seq = [(value, weight), ...]"""
        feats = []
        for i, (v, w) in enumerate(seq):
            d = dict(constants.dialect)
            d[key] = v
            feats.append(F.Feature(attributes={"a%d_%d" % (i, j): ["x"] for j in range(w)}, dialect=d))
        got = H._choose_dialect(feats)[key]
        tot, first = {}, []
        for v, w in seq:
            tot[v] = tot.get(v, 0) + w
            if v not in first:
                first.append(v)
        best = max(tot.values())
        exp = [v for v in first if tot[v] == best][0]
        return got, exp

    def replay_for(key, va, vb):
        def replay(m):
            A, B, w = max(0, int(m.get("A", 1))), max(0, int(m.get("B", 1))), max(0, int(m.get("w", 1)))
            seqs = [[(va, A), (vb, B), (va, w)], [(vb, B), (va, A), (vb, w)], [(va, 2), (vb, 1), (vb, 1)], [(vb, 2), (va, 1), (va, 1)], [(va, 1), (vb, 3), (va, 1), (va, 1)],
                    [(va, 3), (vb, 2), (vb, 2), (va, 1)], [(vb, 1), (va, 1), (vb, 1), (va, 1), (va, 1), (vb, 1)], [(va, 0), (vb, 0)], [(va, 2), (vb, 2), (vb, 0)]]
            obs = []
            for s_ in seqs:
                got, exp = native(key, va, vb, s_)
                obs.append((s_, got, exp))
                if got != exp:
                    return {"inputs": {"key": key, "lines (value, attribute count)": s_}, "expected": exp, "observed": got, "violates": True}
            return {"inputs": {"key": key}, "observed": "9 line sequences agree", "violates": False}
        return replay

    for key, (va, vb) in candidates.items():
        replay = replay_for(key, va, vb)
        for shape in ("empty", "a", "b", "ab", "ba"):
            # ---- tally step
            for nxt in (va, vb):
                it = Interp()

                def run(ctx, key=key, va=va, vb=vb, shape=shape, nxt=nxt):
                    holder = {}

                    def setup(env, c, iterable):
                        if "count" not in env.vars:
                            raise Undecided("the tally is no longer kept in a local named `count`")
                        cnt = mk_count(c, key, va, vb, shape, env.vars["count"])
                        holder["before"] = {k: dict(v) for k, v in cnt.items()}
                        env.store("count", cnt)
                        d = dict(constants.dialect)
                        d[key] = nxt
                        d["order"] = ["k0"]
                        return Peeked(d, ["k0"], SInt(W_))
                    install_loop_body_hook(it, "_choose_dialect", 0, setup)
                    ctx.stash["holder"] = holder
                    try:
                        it.call(H._choose_dialect, [[Peeked(dict(constants.dialect), ["k0"], SInt(W_))]], {})
                    except LoopExit as e:
                        return e.env.vars.get("count")
                    raise Undecided("loop hook not reached")
                base = "C09.fold.tally[%s,%s,next=%r]" % (key, shape, nxt)
                for p in U.explore(run, it):
                    if p.kind != "return" or not isinstance(p.value, dict):
                        U.prove(base + ".noraise#p%d" % p.index, "the step raises nothing (got %r)" % (p.value,), p.pc, z3.BoolVal(False), vars_, replay=replay)
                        continue
                    cnt, before = p.value, p.ctx.stash["holder"]["before"]
                    old = before[key]
                    want_order = list(old.keys()) + ([nxt] if nxt not in old else [])
                    struct = set(cnt.keys()) == set(before.keys()) and list(cnt[key].keys()) == want_order
                    goals = [z3.BoolVal(bool(struct))]
                    if struct:
                        for v in want_order:
                            o = old.get(v, 0)
                            oe = o.e if isinstance(o, SInt) else z3.IntVal(o)
                            n_ = cnt[key][v]
                            ne = n_.e if isinstance(n_, SInt) else (z3.IntVal(n_) if isinstance(n_, int) else None)
                            goals.append(z3.BoolVal(False) if ne is None else (ne == oe + (W_ if v == nxt else 0)))
                        for k2 in cnt:
                            if k2 in (key, "order"):
                                continue
                            dv = constants.dialect[k2]
                            ok2 = list(cnt[k2].keys()) == [dv]
                            goals.append(z3.BoolVal(ok2))
                            if ok2:
                                n_ = cnt[k2][dv]
                                ne = n_.e if isinstance(n_, SInt) else (z3.IntVal(n_) if isinstance(n_, int) else None)
                                goals.append(z3.BoolVal(False) if ne is None else (ne == (T_ if shape != "empty" else 0) + W_))
                    U.prove(base + "#p%d" % p.index, "one more line: its attribute count is added to the total of its value for every dialect key; a value seen for the first time comes after those seen before; no other total changes",
                            p.pc, z3.And(*goals), vars_, replay=replay)
            if shape == "empty":
                continue
            # ---- selection from an arbitrary tally
            it = Interp()

            def run2(ctx, key=key, va=va, vb=vb, shape=shape):
                def hook(interp, env, node, iterable):
                    if "count" not in env.vars:
                        raise Undecided("the tally is no longer kept in a local named `count`")
                    env.store("count", mk_count(Ctx.current, key, va, vb, shape, env.vars["count"]))
                    return None
                it.loop_hooks[("_choose_dialect", 0)] = hook
                return it.call(H._choose_dialect, [[Peeked(dict(constants.dialect), ["k0", "k1"], SInt(W_))]], {})
            base = "C09.fold.select[%s,%s]" % (key, shape)
            for p in U.explore(run2, it):
                ok = p.kind == "return" and isinstance(p.value, dict)
                goal = z3.BoolVal(False)
                if ok:
                    d = p.value
                    ca, cb = z3.BoolVal(d.get(key) == va), z3.BoolVal(d.get(key) == vb)
                    if shape == "a":
                        spec = ca
                    elif shape == "b":
                        spec = cb
                    else:
                        spec = z3.If(A_ > B_, ca, z3.If(B_ > A_, cb, ca if shape == "ab" else cb))
                    others = all(d.get(x) == constants.dialect[x] for x in constants.dialect if x not in (key, "order")) and set(d) == set(constants.dialect)
                    goal = z3.And(spec, z3.BoolVal(bool(others and d.get("order") == ["k0", "k1"])))
                U.prove(base + "#p%d" % p.index, "after the tally: the value with the larger total wins, a tie goes to the value seen first; unanimous keys keep their value", p.pc, goal, vars_, replay=replay)

    # ---- key order: body of the inner order loop from an arbitrary list of keys seen so far
    it = Interp()

    class SeenList(object):
        """an arbitrary list of strings: membership is an uninterpreted predicate, appends are recorded"""
        _pyvc_model = True

        def __init__(self):
            self.member = z3.Function("seen_before", z3.StringSort(), z3.BoolSort())
            self.appended = []

        def __contains__(self, x):
            zx = SStr.of(x).z3()
            e = self.member(zx)
            for a in self.appended:
                e = z3.Or(e, SStr.of(a).z3() == zx)
            return SBool(e)

        def append(self, x):
            self.appended.append(x)

    def run3(ctx):
        seen = SeenList()
        o = SStr([Val(z3.String("o"))])

        def skip(interp, env, node, iterable):
            cnt = env.vars.get("count")
            if not isinstance(cnt, dict) or set(cnt.keys()) != set(constants.dialect.keys()) or not all(isinstance(x, dict) for x in cnt.values()):
                raise Undecided("the tally before the loop is not a mapping per dialect key any more")
            for k, v in constants.dialect.items():
                cnt[k][tuple(v) if isinstance(v, list) else v] = 1
            return None
        it.loop_hooks[("_choose_dialect", 0)] = skip

        def setup(env, c, iterable):
            if "final_order" not in env.vars:
                raise Undecided("the key order is no longer kept in a local named `final_order`")
            env.store("final_order", seen)
            return o
        install_loop_body_hook(it, "_choose_dialect", 4, setup)
        ctx.stash.update(seen=seen, o=o)
        try:
            it.call(H._choose_dialect, [[Peeked(dict(constants.dialect), ["k0"], SInt(W_))]], {})
        except LoopExit as e:
            return e.env.vars.get("final_order")
        raise Undecided("loop hook not reached")

    def replay_order(m):
        mk = lambda keys: F.Feature(attributes={k: ["x"] for k in keys})
        cases = [([["a", "b"], ["b", "c", "a", "d"]], ["a", "b", "c", "d"]), ([["x"], [], ["y", "x"], ["z", "y", "w"]], ["x", "y", "z", "w"]), ([["ID", "Name"], ["Name", "ID"], ["ID"]], ["ID", "Name"])]
        for lines, exp in cases:
            got = H._choose_dialect([mk(k) for k in lines])["order"]
            if got != exp:
                return {"inputs": lines, "expected": exp, "observed": got, "violates": True}
        return {"observed": "3 key sequences agree", "violates": False}
    for p in U.explore(run3, it):
        st = p.ctx.stash
        if p.kind != "return":
            U.prove("C09.fold.order.noraise#p%d" % p.index, "the step raises nothing (got %r)" % (p.value,), p.pc, z3.BoolVal(False), {}, replay=replay_order)
            continue
        seen, o = st["seen"], st["o"]
        was = seen.member(o.z3())
        app = seen.appended
        okid = p.value is seen and len(app) in (0, 1) and all(a is o for a in app)
        U.prove("C09.fold.order#p%d" % p.index, "one more key: it is appended to the order iff it was not in it yet; the list itself and its earlier entries stay", p.pc,
                z3.And(z3.BoolVal(bool(okid)), z3.Not(was) == z3.BoolVal(len(app) == 1)), {"o": z3.String("o")}, replay=replay_order)
    from pyvc.harness import require_loop_state
    require_loop_state(H._choose_dialect, {0: (), 1: ("final_dialect",), 2: ("final_order",), 3: (), 4: ("final_order",)}, "the fold rule (C09.fold.*)")


def unit_window(U):
    """the lines the vote sees: for Feature-iterable input _FeatureIterator.peek(checklines) hands the first
    min(checklines + 1, len) items to inference and leaves the source intact (same obligations as C13, shared)"""
    from props import C13
    C13.unit_peek(U, prefix="C09.window")


def unit_prebuilt(U):
    """the dialect an iterator inferred from its own data stays the one it reports and parses with, also when it is
    passed on together with a dialect= keyword (as FeatureDB.update does); shared with C13"""
    from props import C13
    C13.unit_dispatch(U, prefix="C09.prebuilt", only=("iterator", "iterator+kwargs"))


def unit_fresh(U):
    """the dialect REPORTED for a text is inferred from that text on every call: helpers.infer_dialect(s) twice, and the two
    feature dialects of two parses, are equal but share no mutable part (the dict, its 'order' list) - or a caller who
    customises the dialect it was given (the documented workflow) changes what the next inference of the same text reports"""
    picks = [(n, D) for n, D in A.dialects() if n in ("k=v|';'|notrail|norep", 'k "v"|\'; \'|trail|norep', "k=v|'; '|trail|rep")]
    for dname, D in picks:
        it = Interp()
        A.install(it)

        def run(ctx, D=D):
            items = []
            for ai, n in enumerate((1, 2)):
                vals = [A.value_hole("v%d_%d" % (ai, j), D) for j in range(n)]
                for v in vals:
                    for c in v.light_constraints():
                        ctx.assume(c)
                items.append((A.KEYS[ai], vals))
            attr = A.enc(items, D)
            d1 = it.call(H.infer_dialect, [attr], {})
            d2 = it.call(H.infer_dialect, [attr], {})
            return d1, d2

        def replay(m, D=D, dname=dname):
            f = F.Feature(seqid="c", source="s", featuretype="t", start=1, end=2, attributes={"ID": ["a"], "Name": ["x", "y"]}, dialect=dict(D))
            attr = str(f).split("\t")[8]
            first = H.infer_dialect(attr)
            want = {k: (list(v) if isinstance(v, list) else v) for k, v in first.items()}
            first["trailing semicolon"] = not first["trailing semicolon"]
            first["field separator"] = " | "
            first["order"].append("Zzz")
            again = H.infer_dialect(attr)
            return {"inputs": {"attributes": attr, "steps": "infer_dialect(s); customise the result in place; infer_dialect(s) again"}, "expected": want, "observed": again, "violates": again != want}
        for p in U.explore(run, it):
            ok = p.kind == "return"
            if ok:
                d1, d2 = p.value
                ok = isinstance(d1, dict) and isinstance(d2, dict) and d1 is not d2 and d1["order"] is not d2["order"] and list(d1.keys()) == list(d2.keys())
            U.prove("C09.infer_dialect.fresh[%s]#p%d" % (dname, p.index), "two inferences of the same text return equal dialects that share neither the dict nor its 'order' list", [], z3.BoolVal(bool(ok)), {}, replay=replay)


def unit_route(U):
    """the format decides the importer, and a dialect supplied to create_db is the dialect the lines are parsed with and the
    one the database reports (the route clause of C03, shared)"""
    from props import C03
    C03.unit_route(U, prefix="C09.route")


def unit_bounded_reported_after_printing(U):
    """Bounded: the dialect REPORTED (DataIterator.dialect, FeatureDB.dialect, a dialect dict supplied by the caller) is that of
    the inspected window; writing features out as text - keep_order on or off, keys first seen beyond the window - does not
    change it"""
    fails, cases = [], 0
    texts = {"gff3": "c\ts\tgene\t1\t9\t.\t+\t.\tID=g;Name=n\nc\ts\tmRNA\t1\t9\t.\t+\t.\tID=m;Name=n;Note=x;Alias=y\nc\ts\texon\t1\t9\t.\t+\t.\tID=e;Dbxref=d;Name=n\n",
             "gtf": 'c\ts\texon\t1\t9\t.\t+\t.\tgene_id "g"; transcript_id "t";\nc\ts\texon\t11\t19\t.\t+\t.\tgene_id "g"; transcript_id "t"; exon_number "2"; note "x";\n'}
    for name, text in texts.items():
        for keep in (True, False):
            cases += 1
            it_ = gffutils.DataIterator(text, from_string=True, checklines=0)
            before = {k: (list(v) if isinstance(v, list) else v) for k, v in it_.dialect.items()}
            for f in it_:
                f.keep_order = keep
                str(f)
            after = {k: (list(v) if isinstance(v, list) else v) for k, v in it_.dialect.items()}
            if after != before:
                fails.append({"case": {"format": name, "keep_order": keep, "checklines": 0, "source": "DataIterator"}, "expected": before, "observed": after})
            cases += 1
            db = gffutils.create_db(text, ":memory:", from_string=True, checklines=0, keep_order=keep)
            before = {k: (list(v) if isinstance(v, list) else v) for k, v in db.dialect.items()}
            for f in db.all_features():
                str(f)
            after = {k: (list(v) if isinstance(v, list) else v) for k, v in db.dialect.items()}
            if after != before:
                fails.append({"case": {"format": name, "keep_order": keep, "checklines": 0, "source": "FeatureDB"}, "expected": before, "observed": after})
            cases += 1
            mine = dict(before, order=list(before["order"]))
            snap = dict(mine, order=list(mine["order"]))
            for line in text.splitlines():
                str(F.feature_from_line(line, dialect=mine, keep_order=keep))
            if mine != snap:
                fails.append({"case": {"format": name, "keep_order": keep, "source": "dialect dict supplied to feature_from_line"}, "expected": snap, "observed": mine})
    U.bounded_result("C09.bounded.reported_after_printing", "printing features leaves the reported / supplied dialect (incl. its key order) as it was", "GFF3 and GTF text with keys first seen beyond the window x keep_order on/off x 3 sources", cases, fails)


def unit_bounded_semicolon_values(U):
    """Bounded: the field separator reported is the one BETWEEN the attributes, also when a quoted value - the first one
    included - contains a narrower semicolon form ("a;b", "Clone x; Genbank y")"""
    fails, cases = [], 0
    for sep in (" ; ", "; "):
        for first in ('Note "Clone cTel33B; Genbank AC199162"', 'Note "a;b"', 'Note "p ; q;r"'):
            for trailing in (False, True):
                if sep in first.split('"')[1]:
                    continue            # the value holds the separator itself: not distinguishable by any reader
                attr = sep.join([first, 'Sequence "cTel33B"', 'gene_id "g1"']) + (";" if trailing else "")
                cases += 1
                d = H.infer_dialect(attr)
                line = "c\ts\texon\t1\t9\t.\t+\t.\t" + attr
                it_ = gffutils.DataIterator(line + "\n" + line.replace("g1", "g2") + "\n", from_string=True)
                got = (d["field separator"], it_.dialect["field separator"], d["order"])
                if got[0] != sep or got[1] != sep or got[2] != ["Note", "Sequence", "gene_id"]:
                    fails.append({"case": {"attributes": attr}, "expected": [sep, sep, ["Note", "Sequence", "gene_id"]], "observed": list(got)})
    U.bounded_result("C09.bounded.semicolon_values", "field separator and key order are those of the attribute list, whatever semicolons the quoted values hold", "2 separators x 3 first values x trailing semicolon", cases, fails)

def unit_bounded_repeated_empty(U):
    """Bounded: a key that occurs twice on a line is a repeated key - also when its FIRST occurrence carries no value (an
    empty quoted value, 'key=' or a bare flag); reported by infer_dialect, DataIterator and the database alike"""
    fails, cases = [], 0
    attrs = [('gene_id "g1"; transcript_id "t1"; tag ""; tag "basic";', True), ('gene_id "g1"; tag ""; tag "basic"; tag "CCDS";', True),
             ("ID=a;Alias=;Alias=foo", True), ("ID=a;Alias;Alias=foo", True), ("ID=a;Alias=;Alias=", True),
             ('gene_id "g1"; tag ""; note "x";', False), ("ID=a;Alias=;Name=foo", False), ("ID=a;Alias=foo;Alias=bar", True)]
    for attr, exp in attrs:
        cases += 1
        line = "c\ts\texon\t1\t9\t.\t+\t.\t" + attr
        try:
            d = H.infer_dialect(attr)
            it_ = gffutils.DataIterator(line + "\n" + line.replace("1\t9", "2\t8") + "\n", from_string=True)
            db = gffutils.create_db(line + "\n" + line.replace("1\t9", "2\t8") + "\n", ":memory:", from_string=True, id_spec=":start:",
                                    disable_infer_genes=True, disable_infer_transcripts=True)
            got = [d["repeated keys"], it_.dialect["repeated keys"], db.dialect["repeated keys"]]
            if got != [exp] * 3:
                fails.append({"case": {"attributes": attr}, "expected": {"repeated keys": exp}, "observed": dict(zip(("infer_dialect", "DataIterator", "FeatureDB"), got))})
        except Exception as e:
            fails.append({"case": {"attributes": attr}, "expected": {"repeated keys": exp}, "observed": repr(e)})
    U.bounded_result("C09.bounded.repeated_key_with_empty_value", "'repeated keys' is reported whenever a key occurs twice on a line, whatever values the occurrences carry", "8 attribute strings x infer_dialect / DataIterator / FeatureDB", cases, fails)

UNITS = [("bounded.repeated_empty", unit_bounded_repeated_empty), ("bounded.semicolon_values", unit_bounded_semicolon_values), ("bounded.reported_after_printing", unit_bounded_reported_after_printing), ("route", unit_route), ("fresh", unit_fresh), ("prebuilt", unit_prebuilt), ("line.kv", _unit_line(("k=v", 'k="v"'))), ("line.sp", _unit_line(('k "v"', "k v"))), ("vote", unit_vote), ("vote_fold", unit_vote_fold), ("window", unit_window)]
try:
    from standins import C09 as _S
    UNITS = UNITS + list(_S.UNITS)
except ImportError:
    pass


def replay_file(doc):
    return {"error": "re-run ./check C09 to regenerate and replay this obligation", "violates": None, "stored": doc.get("inputs")}
